"""C14 helper — transactions (TransactionManager), all interleavings.

Every set of 2-3 transaction programs (<= 3 reads/writes each on {x, y}) is run
under EVERY interleaving of their steps (begin, ops, commit) at each isolation
level, inside a real ``Simulation`` (one scheduler process issues the steps in
the chosen order with ``yield from``, so the manager and the store run on the
real clock).  Oracles, per level:

* SERIALIZABLE — the committed transactions must be equivalent to SOME serial
  order: brute force over all permutations, a serial re-execution on a dict must
  reproduce every read of every committed transaction and the final store image.
* SNAPSHOT_ISOLATION — all reads of a committed transaction (other than of its
  own buffered writes) must equal the store contents after ONE prefix of the
  commit sequence (any prefix: the statement does not say which snapshot).
* READ_COMMITTED — a read returns the transaction's own buffered write or the
  latest committed write (first sentence of the statement; writes complete at
  commit).
"""
from __future__ import annotations

import itertools
import time

from mc.evidence import digest
from mc.harness import Entity, Event, Instant, Simulation, run_guarded

from props.c14_seq import make_engine

from happysimulator.components.storage.transaction_manager import IsolationLevel, TransactionManager

KEYS = ("x", "y")
INIT = {"x": 0, "y": ""}  # falsy on purpose: a stored 0 / "" is a value, not a miss
LAT = {"sst_read": 10e-6, "sst_write": 20e-6, "page_read": 10e-6, "page_write": 20e-6,
       "kv_read": 10e-6, "kv_write": 20e-6}
STORES = {"kv": ("kv",), "lsm": ("lsm", "st2", 1, 2), "btree": ("btree", 3)}
LEVELS = {"SERIALIZABLE": IsolationLevel.SERIALIZABLE,
          "SNAPSHOT_ISOLATION": IsolationLevel.SNAPSHOT_ISOLATION,
          "READ_COMMITTED": IsolationLevel.READ_COMMITTED}
OPS = [("r", "x"), ("r", "y"), ("w", "x"), ("w", "y")]


def txn_programs(maxops, minops=1):
    out = []
    for n in range(minops, maxops + 1):
        out.extend(itertools.product(OPS, repeat=n))
    return out


def interleavings(lens):
    """All merges of len(lens) step sequences: yields tuples of txn indices."""
    total = sum(lens)

    def rec(rem, acc):
        if len(acc) == total:
            yield tuple(acc)
            return
        for i, r in enumerate(rem):
            if r:
                rem[i] -= 1
                acc.append(i)
                yield from rec(rem, acc)
                acc.pop()
                rem[i] += 1

    yield from rec(list(lens), [])


class Scheduler(Entity):
    def __init__(self, tm, progs, order, level, rec, override=False):
        super().__init__("sched")
        self.tm, self.progs, self.order, self.level, self.rec = tm, progs, order, level, rec
        self.override = override

    def handle_event(self, event):
        return self._run()

    def begin_how(self, i):
        """How transaction i states its level.  Manager default == level: even transactions pass it to
        begin(), odd ones rely on the default.  Manager default != level (per-transaction override):
        even ones use begin(isolation=level), odd ones begin_sync(isolation=level)."""
        if self.override:
            return "explicit" if i % 2 == 0 else "sync"
        return "explicit" if i % 2 == 0 else "default"

    def _run(self):
        tm, rec = self.tm, self.rec
        pos = [0] * len(self.progs)
        txs = [None] * len(self.progs)
        for i in self.order:
            p = self.progs[i]
            step = pos[i]
            pos[i] += 1
            if step == 0:
                how = self.begin_how(i)
                if how == "default":
                    txs[i] = yield from tm.begin()
                elif how == "sync":
                    txs[i] = tm.begin_sync(self.level)
                else:
                    txs[i] = yield from tm.begin(self.level)
                rec["log"].append((i, "begin", None, how))
            elif step == len(p) + 1:
                ok = yield from txs[i].commit()
                rec["commit"][i] = bool(ok)
                if ok:
                    rec["commit_order"].append(i)
                rec["log"].append((i, "commit", None, bool(ok)))
            else:
                kd, k = p[step - 1]
                if kd == "r":
                    v = yield from txs[i].read(k)
                    rec["reads"][i].append((step - 1, k, v))
                    rec["log"].append((i, "r", k, v))
                else:
                    val = 100 * (i + 1) + step
                    yield from txs[i].write(k, val)
                    rec["log"].append((i, "w", k, val))
        rec["done"] = True


def split_level(level_name):
    """'LEVEL' -> (LEVEL, LEVEL);  'DEFAULT>LEVEL' -> manager default DEFAULT, every transaction begun
    with the per-transaction override LEVEL (and judged by LEVEL, its own level)."""
    if ">" in level_name:
        d, lv = level_name.split(">")
        return d, lv
    return level_name, level_name


def execute(store_tag, level_name, progs, order):
    default, level = split_level(level_name)
    store = make_engine(STORES[store_tag], lat=LAT)
    for k, v in INIT.items():
        store.put_sync(k, v)
    tm = TransactionManager("tm", store=store, isolation=LEVELS[default])
    rec = {"reads": [[] for _ in progs], "commit": {}, "commit_order": [], "log": [], "done": False}
    sch = Scheduler(tm, progs, order, LEVELS[level], rec, override=default != level)
    sim = Simulation(entities=[store, tm, sch])
    sim.schedule(Event(time=Instant(0), event_type="go", target=sch))
    info = run_guarded(sim, max_events=2000, storm=500)
    rec["info"] = info
    rec["final"] = {k: store.get_sync(k) for k in KEYS}
    return rec


def write_val(i, step):
    return 100 * (i + 1) + step + 1


def serial_ok(progs, rec, perm):
    state = dict(INIT)
    for i in perm:
        local = {}
        reads = iter(rec["reads"][i])
        for j, (kd, k) in enumerate(progs[i]):
            if kd == "r":
                _j, _k, got = next(reads)
                if got != local.get(k, state[k]):
                    return False
            else:
                local[k] = write_val(i, j)
        state.update(local)
    return state == rec["final"]


def oracle(level_name, progs, rec, store_tag=None):
    """Returns [(fingerprint, description)].  With 'DEFAULT>LEVEL' every transaction is judged by LEVEL,
    the level it was begun with; the fingerprint gets the shape suffix /per-txn-override."""
    default, level = split_level(level_name)
    if default != level:
        return [(fp + "/per-txn-override", desc + f" [manager default {default}, begin(isolation={level})]")
                for fp, desc in _oracle(level, progs, rec, store_tag)]
    return _oracle(level, progs, rec, store_tag)


def _oracle(level_name, progs, rec, store_tag=None):
    out = []
    if not rec["done"]:
        return out
    committed = [i for i in range(len(progs)) if rec["commit"].get(i)]
    # first sentence of the statement: a read returns the value of SOME write to that key (or the
    # initial value).  Anything else is a defect of the store under the manager, not an isolation
    # anomaly: report it under its own clause and do not judge isolation on garbage reads.
    written = {k: {INIT[k]} for k in KEYS}
    for i, p in enumerate(progs):
        for j, (kd, k) in enumerate(p):
            if kd == "w":
                written[k].add(write_val(i, j))
    for i in range(len(progs)):
        for (_j, k, v) in rec["reads"][i]:
            if v not in written[k]:
                out.append((f"txn/{level_name}/read-returned-unwritten-value/{store_tag or 'store'}",
                            f"T{i} read {k!r} = {v!r}, which no transaction wrote and is not the initial "
                            f"value {INIT[k]!r}"))
                return out
    if level_name == "SERIALIZABLE":
        if not any(serial_ok(progs, rec, perm) for perm in itertools.permutations(committed)):
            ro = all(all(kd == "r" for kd, _ in progs[i]) for i in committed)
            out.append(("txn/SERIALIZABLE/no-equivalent-serial-order/" + ("read-only" if ro else "read-write"),
                        f"committed {committed} (commit order {rec['commit_order']}): reads "
                        f"{[rec['reads'][i] for i in committed]} and final store {rec['final']} are not produced "
                        f"by any serial order of the committed transactions"))
    elif level_name == "SNAPSHOT_ISOLATION":
        snaps = [dict(INIT)]
        for i in rec["commit_order"]:
            s = dict(snaps[-1])
            for j, (kd, k) in enumerate(progs[i]):
                if kd == "w":
                    s[k] = write_val(i, j)
            snaps.append(s)
        for i in committed:
            ext = []
            local = set()
            it = iter(rec["reads"][i])
            for j, (kd, k) in enumerate(progs[i]):
                if kd == "r":
                    _j, _k, got = next(it)
                    if k not in local:
                        ext.append((k, got))
                else:
                    local.add(k)
            if not any(all(s[k] == v for k, v in ext) for s in snaps):
                wr = any(kd == "w" for kd, _ in progs[i])
                out.append(("txn/SNAPSHOT_ISOLATION/reads-not-from-one-snapshot/"
                            + ("read-write-txn" if wr else "read-only-txn"),
                            f"committed transaction T{i} read {ext}; committed snapshots in commit order "
                            f"{rec['commit_order']} are {snaps}: no single snapshot explains all reads"))
                break
    elif level_name == "READ_COMMITTED":
        state = dict(INIT)
        local = [dict() for _ in progs]
        for (i, kd, k, v) in rec["log"]:
            if kd == "w":
                local[i][k] = v
            elif kd == "r":
                exp = local[i].get(k, state[k])
                if v != exp:
                    out.append(("txn/READ_COMMITTED/stale-read/interleaved",
                                f"T{i} read {k!r} = {v!r}; own buffer / latest committed value is {exp!r}"))
                    break
            elif kd == "commit" and v:
                state.update(local[i])
    return out


def conflicting(progs):
    """Non-triviality: two transactions touch a common key and at least one of them writes it."""
    for a, b in itertools.combinations(range(len(progs)), 2):
        for (k1, key1) in progs[a]:
            for (k2, key2) in progs[b]:
                if key1 == key2 and "w" in (k1, k2):
                    return True
    return False


def work(job):
    store_tag, level_name, prog_sets = job
    t0 = time.process_time()
    st = {"exec": 0, "steps": 0, "nontriv": 0, "outcomes": set(), "viol": {}, "samples": [], "aborts": 0,
          "unfinished": 0}
    for progs in prog_sets:
        lens = [len(p) + 2 for p in progs]
        conf = conflicting(progs)
        for order in interleavings(lens):
            try:
                rec = execute(store_tag, level_name, progs, order)
            except Exception as exc:
                import traceback
                st["exec"] += 1
                st["viol"].setdefault(f"txn/{level_name}/crash-{type(exc).__name__}",
                                      (f"raised {type(exc).__name__}: {exc} | "
                                       + traceback.format_exc().splitlines()[-3].strip(),
                                       _rep(store_tag, level_name, progs, order)))
                continue
            st["exec"] += 1
            st["steps"] += len(order)
            if not rec["done"]:
                st["unfinished"] += 1
            serial = all(order[a] <= order[a + 1] for a in range(len(order) - 1)) or \
                all(order[a] >= order[a + 1] for a in range(len(order) - 1))
            if conf and not serial:
                st["nontriv"] += 1
            st["aborts"] += sum(1 for v in rec["commit"].values() if not v)
            st["outcomes"].add(digest((sorted(rec["commit"].items()), [[(k, v) for _j, k, v in r] for r in rec["reads"]],
                                       sorted(rec["final"].items()))))
            for fp, desc in oracle(level_name, progs, rec, store_tag):
                if fp not in st["viol"]:
                    st["viol"][fp] = (desc + f"  [log: {rec['log']}]", _rep(store_tag, level_name, progs, order))
            if not st["samples"] and st["exec"] % 3001 == 11:
                st["samples"].append({"store": store_tag, "level": level_name, "programs": progs,
                                      "order": order, "log": rec["log"], "final": rec["final"]})
    st["wall"] = time.process_time() - t0
    return st


# ---------------------------------------------------------------------------
# transactions overlapping in simulated time: one process per transaction, start offsets on a grid
# ---------------------------------------------------------------------------
TX_GRID_NS = 1000  # begin/write latencies inside the manager are 1 us


class TxnProc(Entity):
    def __init__(self, i, tm, prog, level, rec):
        super().__init__(f"txn{i}")
        self.i, self.tm, self.prog, self.level, self.rec = i, tm, prog, level, rec

    def handle_event(self, event):
        return self._run()

    def _run(self):
        i, rec = self.i, self.rec
        rec["span"][i] = [rec["tick"](), None]
        tx = yield from self.tm.begin(self.level)
        rec["log"].append((i, "begin", None, None))
        for j, (kd, k) in enumerate(self.prog):
            if kd == "r":
                v = yield from tx.read(k)
                rec["reads"][i].append((j, k, v))
                rec["log"].append((i, "r", k, v))
            else:
                val = write_val(i, j)
                yield from tx.write(k, val)
                rec["log"].append((i, "w", k, val))
        ok = yield from tx.commit()
        rec["commit"][i] = bool(ok)
        if ok:
            rec["commit_order"].append(i)
        rec["log"].append((i, "commit", None, bool(ok)))
        rec["span"][i][1] = rec["tick"]()
        rec["finished"] += 1


def execute_overlap(store_tag, level_name, progs, offsets):
    store = make_engine(STORES[store_tag], lat=LAT)
    for k, v in INIT.items():
        store.put_sync(k, v)
    tm = TransactionManager("tm", store=store, isolation=LEVELS[level_name])
    counter = [0]

    def tick():
        counter[0] += 1
        return counter[0]

    rec = {"reads": [[] for _ in progs], "commit": {}, "commit_order": [], "log": [], "done": False,
           "span": {}, "tick": tick, "finished": 0}
    procs = [TxnProc(i, tm, p, LEVELS[level_name], rec) for i, p in enumerate(progs)]
    sim = Simulation(entities=[store, tm] + procs)
    for pr, off in zip(procs, offsets):
        sim.schedule(Event(time=Instant(off), event_type="go", target=pr))
    rec["info"] = run_guarded(sim, max_events=2000, storm=500)
    rec["done"] = rec["finished"] == len(progs)
    rec["final"] = {k: store.get_sync(k) for k in KEYS}
    del rec["tick"]
    return rec


def lifetimes_overlap(rec):
    sp = [v for v in rec["span"].values() if v[1] is not None]
    return any(a[0] < b[1] and b[0] < a[1] for a, b in itertools.combinations(sp, 2))


def work_overlap(job):
    store_tag, level_name, prog_sets, cap_ns = job
    t0 = time.process_time()
    st = {"exec": 0, "steps": 0, "nontriv": 0, "outcomes": set(), "viol": {}, "samples": [], "aborts": 0,
          "unfinished": 0, "cap_hits": 0}
    for progs in prog_sets:
        conf = conflicting(progs)
        stopped = False
        for off in range(0, cap_ns + 1, TX_GRID_NS):
            offsets = (0, off)
            try:
                rec = execute_overlap(store_tag, level_name, progs, offsets)
            except Exception as exc:
                import traceback
                st["exec"] += 1
                st["viol"].setdefault(f"txn/{level_name}/crash-{type(exc).__name__}",
                                      (f"raised {type(exc).__name__}: {exc} | "
                                       + traceback.format_exc().splitlines()[-3].strip(),
                                       _rep_ov(store_tag, level_name, progs, offsets)))
                continue
            st["exec"] += 1
            st["steps"] += len(rec["log"])
            if not rec["done"]:
                st["unfinished"] += 1
            ov = lifetimes_overlap(rec)
            if conf and ov:
                st["nontriv"] += 1
            st["aborts"] += sum(1 for v in rec["commit"].values() if not v)
            st["outcomes"].add(digest((sorted(rec["commit"].items()),
                                       [[(k, v) for _j, k, v in r] for r in rec["reads"]],
                                       sorted(rec["final"].items()))))
            if level_name != "READ_COMMITTED":
                for fp, desc in oracle(level_name, progs, rec, store_tag):
                    if fp not in st["viol"]:
                        st["viol"][fp] = (desc + f"  [log: {rec['log']}]",
                                          _rep_ov(store_tag, level_name, progs, offsets))
            if not st["samples"] and st["exec"] % 2003 == 11:
                st["samples"].append({"store": store_tag, "level": level_name, "programs": progs,
                                      "offsets_ns": offsets, "log": rec["log"], "final": rec["final"]})
            if not ov:
                stopped = True
                break
        if not stopped:
            st["cap_hits"] += 1
    st["wall"] = time.process_time() - t0
    return st


def _rep_ov(store_tag, level_name, progs, offsets):
    return {"driver": "txn-overlap", "store": store_tag, "level": level_name, "programs": progs,
            "offsets_ns": offsets}


def replay_txn_overlap(rep):
    progs = _thaw(rep["programs"])
    offsets = tuple(rep["offsets_ns"])
    print(f"store={rep['store']} level={rep['level']} initial={INIT}")
    for i, (p, o) in enumerate(zip(progs, offsets)):
        print(f"  T{i} (own process, starts at {o} ns): begin; {p}; commit")
    rec = execute_overlap(rep["store"], rep["level"], progs, offsets)
    for (i, kd, k, v) in rec["log"]:
        print(f"    T{i} {kd} {k if k else ''} -> {v!r}")
    print(f"  commit results {rec['commit']} commit order {rec['commit_order']} final {rec['final']}")
    v = oracle(rep["level"], progs, rec, rep["store"])
    for fp, desc in v:
        print(f"  !! {fp}: {desc}")
    return 1 if v else 0


def _rep(store_tag, level_name, progs, order):
    return {"driver": "txn", "store": store_tag, "level": level_name, "programs": progs, "order": order}


def _thaw(x):
    return tuple(_thaw(i) for i in x) if isinstance(x, list) else x


def replay_txn(rep):
    progs = _thaw(rep["programs"])
    order = tuple(rep["order"])
    print(f"store={rep['store']} level={rep['level']} initial={INIT}")
    for i, p in enumerate(progs):
        print(f"  T{i}: begin; {p}; commit")
    print(f"  step order (transaction index per step): {order}")
    rec = execute(rep["store"], rep["level"], progs, order)
    for (i, kd, k, v) in rec["log"]:
        print(f"    T{i} {kd} {k if k else ''} -> {v!r}")
    print(f"  commit results {rec['commit']} commit order {rec['commit_order']} final {rec['final']}")
    v = oracle(rep["level"], progs, rec, rep["store"])
    for fp, desc in v:
        print(f"  !! {fp}: {desc}")
    return 1 if v else 0

"""C20 — sketches keep their one-sided guarantees and merge like the union of their inputs.

Engine E3 (small-scope enumeration on the real objects), per sketch:

* ``bloom`` / ``cms`` / ``hll``: ALL streams of length <= L (5 quick / 7 thorough)
  over an alphabet of 4 items x weights {1,2} (5 items up to length 6 in
  thorough), the items being chosen TO COLLIDE through the sketch's own hashing
  (public queries on fresh sketches: an item that is reported present / counted
  only once two others are both inserted, an item sharing every bit / cell of
  another; for HyperLogLog items sharing the first and the last register with
  different ranks).  Every stream is checked for the one-sided clause (no false
  negative / never underestimates), and for EVERY split point s = u + v:
  sketch(u).merge(sketch(v)) must be publicly indistinguishable from sketch(s)
  (queries on the alphabet and ~40 probe items, item_count, fill / error
  properties; for HyperLogLog cardinality() now and after adding saturating
  probe streams that expose the register ranks).
  These three are explored as an explicit state graph: a state is the pickled
  sketch, every object handed to the library is re-created from such a pickle,
  so add / merge / observe run once per distinct (state, input); every stream
  and every (stream, split) pair is still enumerated and judged (the one-sided
  oracle depends on the path, not only on the state).  All streams of length
  <= 3 plus a fixed 1/257 slice are re-executed straight (no memo) and compared.
* 'queried-before' dimension (all sketches): every public read-only query
  (contains / estimate / cardinality / top / quantile / cdf / sample / len /
  repr / ...) is called after construction and after every insertion, or once
  at the end, and on both / the left / the right half right before merge().
  Demanded: (a) for Bloom, Count-Min, HyperLogLog, TopK, Reservoir the queried
  sketch answers exactly like the never-queried one (t-digest queries flush the
  buffer, so there only the quantile clauses are demanded - its 'each'
  configurations); (b) merge of queried halves == sketch of the concatenation.
  In the state graph a query is a transition; variants whose states are the
  very same pickles as the unqueried ones are not re-judged.
* ``topk``: space-saving guarantees against an exact Counter on every stream
  (straight executions).
* ``tdigest``: 21-point quantile grid non-decreasing and inside [min, max], with
  queries only at the end / after every insertion / on merged halves.
* ``reservoir``: exactly min(k, n) items, a sub-multiset of the stream, for
  direct streams and for every merged split.
* ``ops`` / ``topk-epochs`` (props/c20_ops.py): sketches driven from NON-INITIAL
  states - 3 objects, all sequences of add / merge (every direction) / clear up
  to depth 4 (quick) / 5 (thorough), every object compared with the fresh
  sketch of the stream it has absorbed since its last clear(); TopK: all
  (stream, clear(), stream) pairs, oracle on the second epoch.
* ``merkle``: ALL ordered pairs of maps over 2-6 keys x {absent, v1, v2}, trees
  built three ways (build / update / overwrite+remove churn); plus construction
  HISTORIES over 3 (quick) / 4 (thorough) keys: bulk build from every insertion
  order of the keys, alone or followed by update-existing / remove / update-new,
  and pure update sequences in every order - every history against every other
  history of the same map (diff must be empty) and against two representatives
  of every map, both directions.
* ``wrappers``: SketchCollector / TopKCollector / QuantileEstimator fed by real
  events through a real ``Simulation`` (all event sequences, two timing shapes),
  same oracles through the wrapper's public surface.

Statement wording is followed literally: HyperLogLog has no accuracy clause;
TopK merge has no clause (the library documents it as lossy); cdf(), top-n
ordering, item_count of non-merge sketches are not judged.
"""
from __future__ import annotations

import hashlib
import itertools
import pickle
import time

from mc.evidence import Run
from mc.harness import Event, Instant, Simulation, pmap, rotate, run_guarded

from props import c20_lib as L
from props import c20_ops as OPS
from props.c20_lib import add, cands, make_family

PID = "C20"


def h8(b) -> int:
    if not isinstance(b, (bytes, bytearray)):
        b = repr(b).encode()
    return int.from_bytes(hashlib.blake2b(b, digest_size=8).digest(), "big")


def submit(run, allv):
    """Report violations smallest witness first (Run keeps the first replay per fingerprint)."""
    def size(rep):
        return len(rep.get("stream") or rep.get("events") or []) + len(rep.get("a") or []) + len(rep.get("b") or [])
    for fp, desc, rep in sorted(allv, key=lambda t: (t[0], size(t[2]), repr(t[2]))):
        run.violation(fp, desc, rep)


def thaw(x):
    return tuple(thaw(i) for i in x) if isinstance(x, list) else x


# ---------------------------------------------------------------------------
# stream exploration (one family configuration, one prefix sub-tree)
# ---------------------------------------------------------------------------
class Stats:
    def __init__(self):
        self.exec = 0
        self.trans = 0
        self.nontriv = 0
        self.states = set()
        self.outcomes = set()
        self.viol = {}
        self.samples = []
        self.private_diff = 0
        self.deep_seen = set()
        self.selfcheck = 0
        self.cpu0 = time.process_time()

    def out(self):
        return {"cpu": time.process_time() - self.cpu0, "exec": self.exec, "trans": self.trans, "nontriv": self.nontriv, "states": self.states,
                "outcomes": self.outcomes, "viol": self.viol, "samples": self.samples,
                "private_diff": self.private_diff, "selfcheck": self.selfcheck}


def _first_diff(oa, ob, names=None):
    """First differing public observation; per-probe answers are reduced to the probes that differ."""
    for (la, va), (_lb, vb) in zip(oa, ob):
        if va != vb:
            if names and isinstance(va, tuple) and isinstance(vb, tuple) and len(va) == len(vb) == len(names):
                d = [(names[i], va[i], vb[i]) for i in range(len(va)) if va[i] != vb[i]][:4]
                return la, {repr(k): a for k, a, _b in d}, {repr(k): b for k, _a, b in d}
            return la, va, vb
    return "observation", oa, ob


def _deep_distinguish(fam, a, f):
    """Private state differs although the standard observation agrees: look for a
    PUBLIC future that tells them apart (one more insertion, then observe)."""
    for y in cands("int", 200, 500) + cands("str", 100, 500):
        ca, cf = L.clone(a), L.clone(f)
        ca.add(y)
        cf.add(y)
        oa, of = tuple(fam.observe(ca)), tuple(fam.observe(cf))
        if oa != of:
            return y, _first_diff(oa, of, fam.items + fam.probes)
    return None


def _viol(st, fam, spec, drv, stream, fp, desc, split=None, queried=None):
    cur = st.viol.get(fp)
    if cur is None or len(cur[1]["stream"]) > len(stream):  # keep the smallest witness
        st.viol[fp] = (desc, {"driver": drv, "spec": spec, "stream": list(stream), "split": split,
                              "queried": queried})


# 'queried-before' dimension: where the read-only queries are called
#   every      after construction and after every insertion (both halves when merging)
#   end        once, right before the final observation / on both halves right before merge
#   end-left   only on the receiving half right before merge;  end-right  only on the merged-in half
QUERY_PATTERNS = ("every", "end", "end-left", "end-right")


def check_mergeable(fam, spec, drv, stream, idx, blobs, st, merged):
    """One stream of a Bloom / Count-Min / HyperLogLog family on the explicit state graph.
    blobs[i] = canonical state after stream[:i]."""
    n = len(stream)
    blob = blobs[-1]
    try:
        of = fam.obs_blob(blob)
        v, nt, _out = fam.check(None, stream, "direct", of)
    except Exception as e:  # an exception on a valid stream: the guarantee is not delivered
        _viol(st, fam, spec, drv, stream, f"{fam.kind}/raised-on-valid-stream/{type(e).__name__}", f"{type(e).__name__}: {e}")
        return
    st.exec += 1
    if nt:
        st.nontriv += 1
    for fp, desc in v:
        _viol(st, fam, spec, drv, stream, fp, desc)
    # self-check of the memoised graph against a straight execution (all short streams + a fixed slice)
    if n <= 3 or (hash(tuple(idx)) % 257) == 0:
        direct = tuple(fam.observe(fam.build(stream)))
        st.selfcheck += 1
        if direct != of:
            raise AssertionError(f"C20 harness: memoised state graph differs from straight execution on {stream}: "
                                 f"{_first_diff(direct, of)}")
    # queried-before: the same stream with read-only queries interleaved must answer the same
    try:
        qpre = [fam.touched(fam.empty)]
        for j in range(n):
            qpre.append(fam.touched(fam.step(qpre[-1], idx[j], stream[j])))
        for pat, b2 in (("every", qpre[-1]), ("end", fam.touched(blob))):
            if b2 is blob:
                continue
            st.exec += 1
            o2 = fam.obs_blob(b2)
            if o2 != of:
                lab, va, vb = _first_diff(o2, of, fam.items + fam.probes)
                _viol(st, fam, spec, drv, stream, f"{fam.kind}/read-only-queries-change-answers/{lab}",
                      f"with every read-only query called ({pat}) the sketch of {stream} has {lab}={va!r}, "
                      f"without them {vb!r}", None, pat)
    except Exception as e:
        _viol(st, fam, spec, drv, stream, f"{fam.kind}/raised-on-valid-stream/{type(e).__name__}",
              f"{type(e).__name__}: {e}", None, "every")
        return
    if not merged:
        return
    for i in range(n + 1):
        bb = fam.empty
        try:
            qb = qpre[0]
            for j in range(i, n):
                bb = fam.step(bb, idx[j], stream[j])
                qb = fam.touched(fam.step(qb, idx[j], stream[j]))
            oa, ka = fam.merged(blobs[i], bb)
        except Exception as e:
            _viol(st, fam, spec, drv, stream, f"{fam.kind}/merge-raised/{type(e).__name__}", f"{type(e).__name__}: {e}", i)
            continue
        st.exec += 1
        if oa != of:
            lab, va, vb = _first_diff(oa, of, fam.items + fam.probes)
            _viol(st, fam, spec, drv, stream, f"{fam.kind}/merge-differs-from-concatenation/{lab}",
                  f"sketch({stream[:i]}).merge(sketch({stream[i:]})) has {lab}={va!r}, "
                  f"the sketch of the concatenated stream has {vb!r}", i)
        elif ka is not blob and ka != blob:
            st.private_diff += 1
            dk = (ka, blob)
            if dk not in st.deep_seen and len(st.deep_seen) < 6:
                st.deep_seen.add(dk)
                r = _deep_distinguish(fam, pickle.loads(ka), pickle.loads(blob))
                if r is not None:
                    y, (lab, va, vb) = r
                    _viol(st, fam, spec, drv, stream, f"{fam.kind}/merge-differs-from-concatenation/future-{lab}",
                          f"after also adding {y!r}: merged halves give {lab}={va!r}, "
                          f"the sketch of the concatenated stream gives {vb!r}", i)
        # the halves were queried before being merged
        a0 = blobs[i]
        try:
            ta, tb = fam.touched(a0), fam.touched(bb)
        except Exception as e:
            _viol(st, fam, spec, drv, stream, f"{fam.kind}/merge-raised/{type(e).__name__}", f"{type(e).__name__}: {e}", i, "end")
            continue
        for pat, (xa, xb) in (("every", (qpre[i], qb)), ("end", (ta, tb)), ("end-left", (ta, bb)), ("end-right", (a0, tb))):
            if xa is a0 and xb is bb:
                continue  # queries left no trace in either half: identical to the pair judged above
            try:
                oq, _kq = fam.merged(xa, xb)
            except Exception as e:
                _viol(st, fam, spec, drv, stream, f"{fam.kind}/merge-raised/{type(e).__name__}", f"{type(e).__name__}: {e}", i, pat)
                continue
            st.exec += 1
            if oq != of:
                lab, va, vb = _first_diff(oq, of, fam.items + fam.probes)
                _viol(st, fam, spec, drv, stream, f"{fam.kind}/merge-after-queries-differs-from-concatenation/{lab}",
                      f"sketch({stream[:i]}).merge(sketch({stream[i:]})), read-only queries called on the halves "
                      f"beforehand ({pat}): {lab}={va!r}, the sketch of the concatenated stream has {vb!r}", i, pat)
    if len(st.samples) < 1 and n >= 3 and nt:
        st.samples.append({"config": fam.label(), "stream": list(stream)})


def check_mergeable_straight(fam, spec, drv, stream, st, merged):
    """Fallback for check_mergeable without the pickled state graph: every sketch is built from scratch."""
    n = len(stream)
    try:
        of = tuple(fam.observe(fam.build(stream)))
        v, nt, _out = fam.check(None, stream, "direct", of)
    except Exception as e:
        _viol(st, fam, spec, drv, stream, f"{fam.kind}/raised-on-valid-stream/{type(e).__name__}", f"{type(e).__name__}: {e}")
        return
    st.exec += 1
    st.trans += n + 1
    if nt:
        st.nontriv += 1
    for fp, desc in v:
        _viol(st, fam, spec, drv, stream, fp, desc)
    hh = h8(of)
    st.states.add(hh)
    st.outcomes.add(hh)
    if not merged:
        return
    for i in range(n + 1):
        try:
            a = fam.build(stream[:i])
            a.merge(fam.build(stream[i:]))
            oa = tuple(fam.observe(a))
        except Exception as e:
            _viol(st, fam, spec, drv, stream, f"{fam.kind}/merge-raised/{type(e).__name__}", f"{type(e).__name__}: {e}", i)
            continue
        st.exec += 1
        st.trans += n + 2
        if oa != of:
            lab, va, vb = _first_diff(oa, of, fam.items + fam.probes)
            _viol(st, fam, spec, drv, stream, f"{fam.kind}/merge-differs-from-concatenation/{lab}",
                  f"sketch({stream[:i]}).merge(sketch({stream[i:]})) has {lab}={va!r}, "
                  f"the sketch of the concatenated stream has {vb!r}", i)
        for pat in QUERY_PATTERNS:
            try:
                a, b = build_queried_halves(fam, stream, i, pat)
                a.merge(b)
                oq = tuple(fam.observe(a))
            except Exception as e:
                _viol(st, fam, spec, drv, stream, f"{fam.kind}/merge-raised/{type(e).__name__}", f"{type(e).__name__}: {e}", i, pat)
                continue
            st.exec += 1
            if oq != of:
                lab, va, vb = _first_diff(oq, of, fam.items + fam.probes)
                _viol(st, fam, spec, drv, stream, f"{fam.kind}/merge-after-queries-differs-from-concatenation/{lab}",
                      f"sketch({stream[:i]}).merge(sketch({stream[i:]})), read-only queries called on the halves "
                      f"beforehand ({pat}): {lab}={va!r}, the sketch of the concatenated stream has {vb!r}", i, pat)


def build_queried_halves(fam, stream, i, pat):
    """The two halves of a split with the read-only queries called per QUERY_PATTERNS."""
    every = pat == "every"
    a, b = fam.build(stream[:i], every), fam.build(stream[i:], every)
    if pat in ("end", "end-left"):
        fam.touch(a)
    if pat in ("end", "end-right"):
        fam.touch(b)
    return a, b


def check_plain(fam, spec, drv, stream, st, merged):
    """One stream of a TopK / TDigest / ReservoirSampler family (straight executions)."""
    n = len(stream)
    try:
        f = fam.build(stream)
        v, nt, out = fam.check(f, stream, "direct")
    except Exception as e:
        _viol(st, fam, spec, drv, stream, f"{fam.kind}/raised-on-valid-stream/{type(e).__name__}", f"{type(e).__name__}: {e}")
        return
    st.exec += 1
    st.trans += n + 1
    if nt:
        st.nontriv += 1
    for fp, desc in v:
        _viol(st, fam, spec, drv, stream, fp, desc)
    hh = h8(out)
    st.states.add(hh)
    st.outcomes.add(hh)
    pure = fam.query_pure  # (t-digest: queries flush; its 'each' configurations are the queried dimension)
    if pure:
        # queried-before: read-only queries after every insertion must not change any answer
        try:
            fq = fam.build(stream, True)
            oq, o0 = tuple(fam.observe(fq)), tuple(fam.observe(f))
            v, _nt, _out = fam.check(fq, stream, "queried")
        except Exception as e:
            _viol(st, fam, spec, drv, stream, f"{fam.kind}/raised-on-valid-stream/{type(e).__name__}",
                  f"{type(e).__name__}: {e}", None, "every")
            return
        st.exec += 1
        st.trans += n + 1
        if oq != o0:
            lab, va, vb = _first_diff(oq, o0)
            _viol(st, fam, spec, drv, stream, f"{fam.kind}/read-only-queries-change-answers/{lab}",
                  f"with every read-only query called after every insertion the sketch of {stream} has "
                  f"{lab}={va!r}, without them {vb!r}", None, "every")
        for fp, desc in v:
            _viol(st, fam, spec, drv, stream, fp, desc, None, "every")
    if merged and fam.merge_checked:
        for i in range(n + 1):
            for pat in ((None, "end") if pure else (None,)):
                try:
                    if pat is None:
                        a, b = fam.build(stream[:i]), fam.build(stream[i:])
                    else:
                        a, b = build_queried_halves(fam, stream, i, pat)
                    a.merge(b)
                    v, _nt, out = fam.check(a, stream, "merged" if pat is None else "merged-after-queries")
                except Exception as e:
                    _viol(st, fam, spec, drv, stream, f"{fam.kind}/merge-raised/{type(e).__name__}",
                          f"{type(e).__name__}: {e}", i, pat)
                    continue
                st.outcomes.add(h8(out))
                st.exec += 1
                st.trans += n + 2
                for fp, desc in v:
                    _viol(st, fam, spec, drv, stream, fp, desc, i, pat)
    if len(st.samples) < 1 and n >= 3 and nt:
        st.samples.append({"config": fam.label(), "stream": list(stream)})


_FAM_CACHE = {}


def _family_for(spec):
    """Per worker process: the family (with its state graph / memo tables) survives across jobs."""
    key = repr(spec)
    fam = _FAM_CACHE.get(key)
    if fam is None:
        if len(_FAM_CACHE) > 3:
            _FAM_CACHE.clear()
        fam = _FAM_CACHE[key] = make_family(spec)
        fam.graph = False
        if fam.mergeable:
            try:
                fam.init_graph()
                pickle.loads(fam.empty)
                fam.graph = True
            except Exception:  # sketches not picklable: straight executions only (slower, same verdicts)
                fam.graph = False
    return fam


def _stream_work(job):
    spec, drv, symbols, maxlen, prefix, plen, merged = job
    fam = _family_for(spec)
    st = Stats()
    calls0 = fam.impl_calls
    graph = fam.graph
    nsym = len(symbols)

    def visit(stream, idx, blobs):
        if graph:
            check_mergeable(fam, spec, drv, stream, idx, blobs, st, merged)
        elif fam.mergeable:
            check_mergeable_straight(fam, spec, drv, stream, st, merged)
        else:
            check_plain(fam, spec, drv, stream, st, merged)

    def rec(stream, idx, blobs):
        visit(stream, idx, blobs)
        if len(stream) >= maxlen:
            return
        for si in range(nsym):
            sym = symbols[si]
            stream.append(sym)
            idx.append(si)
            if graph:
                try:
                    nb = fam.step(blobs[-1], si, sym)
                except Exception as e:
                    _viol(st, fam, spec, drv, stream, f"{fam.kind}/raised-on-valid-stream/{type(e).__name__}",
                          f"{type(e).__name__}: {e}")
                    stream.pop()
                    idx.pop()
                    continue
                blobs.append(nb)
                rec(stream, idx, blobs)
                blobs.pop()
            else:
                rec(stream, idx, None)
            stream.pop()
            idx.pop()

    def start(idx):
        stream = [symbols[i] for i in idx]
        blobs = None
        if graph:
            blobs = [fam.empty]
            for i, sym in zip(idx, stream):
                blobs.append(fam.step(blobs[-1], i, sym))
        return stream, list(idx), blobs

    if prefix is None:
        # the job that owns every stream shorter than the prefix length
        for n in range(plen):
            for tup in itertools.product(range(nsym), repeat=n):
                visit(*start(tup))
    else:
        rec(*start(prefix))
    if graph:
        st.states = {h8(b) for b in fam._intern}
        st.outcomes = {h8(o) for o in fam._memo.values()}
        st.trans = fam.impl_calls - calls0
    return (drv, fam.label(), st.out())


def stream_jobs(spec, drv, symbols, maxlen, merged, plen=2):
    plen = min(plen, maxlen)
    jobs = [(spec, drv, symbols, maxlen, None, plen, merged)]
    for pre in itertools.product(range(len(symbols)), repeat=plen):
        jobs.append((spec, drv, symbols, maxlen, pre, plen, merged))
    return jobs


def n_streams(nsym, maxlen):
    return sum(nsym ** i for i in range(maxlen + 1))


# ---------------------------------------------------------------------------
# configurations
# ---------------------------------------------------------------------------
def symbols_of(items, weights=(1, 2)):
    return [(x, w) for w in weights for x in items]


def plan(tier):
    """Returns {driver: [(spec, symbols, maxlen, merged, note)]}."""
    q = tier == "quick"
    P = {k: [] for k in ("bloom", "cms", "hll", "topk", "tdigest", "reservoir")}

    def bloom(m, h, seed, kind, n_items, maxlen):
        items, probes, info = L.bloom_alphabet(m, h, seed, kind, n_items)
        spec = ("BloomFilter", {"m": m, "h": h, "seed": seed, "itemkind": kind, "items": items, "probes": probes})
        P["bloom"].append((spec, symbols_of(items), maxlen, True, info))

    def cms(w, d, seed, kind, n_items, maxlen):
        items, probes, info = L.cms_alphabet(w, d, seed, kind, n_items)
        spec = ("CountMinSketch", {"w": w, "d": d, "seed": seed, "itemkind": kind, "items": items, "probes": probes})
        P["cms"].append((spec, symbols_of(items), maxlen, True, info))

    def hll(p, seed, kind, n_items, maxlen):
        items, probes, info, sats = L.hll_alphabet(p, seed, kind, n_items)
        spec = ("HyperLogLog", {"p": p, "seed": seed, "itemkind": kind, "items": items, "probes": probes, "saturators": sats})
        P["hll"].append((spec, symbols_of(items), maxlen, True, info))

    main, var = (5, 5) if q else (7, 6)
    bloom(8, 2, 0, "int", 4, main)
    bloom(16, 2, 0, "int", 4, main)
    bloom(8, 2, 1, "str", 4, main)
    bloom(12, 2, 1, "mixed", 4, main)
    cms(4, 2, 0, "int", 4, main)
    cms(4, 2, 1, "int", 4, main)
    cms(4, 2, 0, "str", 4, main)
    cms(3, 2, 0, "mixed", 4, main)
    hll(4, 0, "int", 4, main)
    hll(4, 1, "int", 4, main)
    hll(4, 0, "str", 4, main)
    if not q:
        bloom(8, 2, 0, "int", 5, 6)
        bloom(16, 2, 1, "mixed", 5, 6)
        cms(4, 2, 0, "int", 5, 6)
        cms(4, 2, 1, "mixed", 5, 6)
        hll(4, 0, "int", 5, 6)
        hll(4, 1, "mixed", 5, 6)
    titems = [0, 1, 2, "x"]
    for k in (1, 2, 3):
        P["topk"].append((("TopK", {"k": k, "items": titems}), symbols_of(titems), main, False, {}))
    if not q:
        t5 = [0, 1, 2, "x", "y"]
        for k in (1, 2, 3, 4):
            P["topk"].append((("TopK", {"k": k, "items": t5}), symbols_of(t5), 6, False, {}))
    vals = [-4.0, 0.0, 1.0, 16.0]
    for c in ((5, 20) if q else (2, 5, 20)):
        for mode in ("end", "each"):
            if q:
                ml = 5 if c != 20 else 4
            else:
                ml = 6 if (c != 20 and mode == "end") else 5
            P["tdigest"].append((("TDigest", {"c": c, "mode": mode, "items": vals}),
                                 symbols_of(vals), ml, True, {}))
    if not q:
        P["tdigest"].append((("TDigest", {"c": 5, "mode": "each", "items": vals, "direct_only": 1}),
                             symbols_of(vals), 7, False, {}))
        P["tdigest"].append((("TDigest", {"c": 2, "mode": "each", "items": vals, "direct_only": 1}),
                             symbols_of(vals), 6, False, {}))
        v5 = [-4.0, 0.0, 1.0, 1.5, 16.0]
        P["tdigest"].append((("TDigest", {"c": 5, "mode": "end", "items": v5}), symbols_of(v5), 5, True, {}))
        P["tdigest"].append((("TDigest", {"c": 1, "mode": "each", "items": v5}), symbols_of(v5), 5, True, {}))
    ritems = [0, 1, 2, 3]
    for k in (1, 2, 3):
        for seed in (0, 1):
            ml = var if seed == 0 else (4 if q else 5)
            P["reservoir"].append((("ReservoirSampler", {"k": k, "seed": seed, "items": ritems}),
                                   symbols_of(ritems), ml, True, {}))
            if q and seed == 1:
                P["reservoir"].append((("ReservoirSampler", {"k": k, "seed": seed, "items": ritems, "direct_only": 1}),
                                       symbols_of(ritems), var, False, {}))
            if not q and seed == 1:
                P["reservoir"].append((("ReservoirSampler", {"k": k, "seed": seed, "items": ritems, "direct_only": 1}),
                                       symbols_of(ritems), 7, False, {}))
    return P


RULES = {
    "bloom": "non-trivial = a false positive actually occurred (an alphabet/probe item never inserted is reported present)",
    "cms": "non-trivial = some alphabet item's estimate is strictly above its true count (cells really collided)",
    "hll": "non-trivial = cardinality() is below the number of distinct items (two items really shared a register)",
    "topk": "non-trivial = more distinct items than counters (an eviction with count inheritance happened)",
    "tdigest": "non-trivial = fewer centroids than values (centroids were really merged)",
    "reservoir": "non-trivial = more stream items than capacity (random replacement decisions were taken)",
    "merkle": "non-trivial = the two maps differ and have different sizes (tree shapes differ)",
    "wrappers": "non-trivial = the family's collision rule above, on the sketch held by the wrapper after the run",
}


def run_stream_driver(run, drv, configs, seed):
    t0 = time.time()
    d = run.driver(drv, {"configs": [{"sketch": make_family(s).label(), "alphabet": [list(x) for x in sym],
                                      "max_len": ml, "all_split_points_merged": mg,
                                      "streams": n_streams(len(sym), ml), "collision_structure": info}
                                     for (s, sym, ml, mg, info) in configs]})
    jobs = []
    for (spec, sym, ml, mg, _info) in configs:
        jobs += stream_jobs(spec, drv, sym, ml, mg)
    states, outcomes = {}, {}
    priv = 0
    selfc = 0
    cpu = 0.0
    allv = []
    for (_drv, label, st) in pmap(_stream_work, rotate(jobs, seed), ordered=False):
        cpu += st["cpu"]
        d.executions += st["exec"]
        d.transitions += st["trans"]
        d.nontrivial += st["nontriv"]
        states.setdefault(label, set()).update(st["states"])
        outcomes.setdefault(label, set()).update(st["outcomes"])
        priv += st["private_diff"]
        selfc += st["selfcheck"]
        allv += [(fp, desc, rep) for fp, (desc, rep) in st["viol"].items()]
        if len(d.samples) < 3:
            d.samples.extend(st["samples"])
    submit(run, allv)
    d.states = sum(len(s) for s in states.values())
    d.outcomes = sum(len(s) for s in outcomes.values())
    d.extra["distinct_outcomes_per_config"] = {k: len(v) for k, v in outcomes.items()}
    d.extra["merged_state_key_differs_but_public_observation_equal"] = priv
    if selfc:
        d.extra["streams_rechecked_by_straight_execution"] = selfc
    d.extra["nontrivial_rule"] = RULES[drv]
    d.extra["worker_cpu_s"] = round(cpu, 1)
    d.wall_s = time.time() - t0


# ---------------------------------------------------------------------------
# Merkle trees: all ordered pairs of maps
# ---------------------------------------------------------------------------
def merkle_maps(keys, values):
    maps = []
    for combo in itertools.product([None] + list(values), repeat=len(keys)):
        maps.append(tuple((k, v) for k, v in zip(keys, combo) if v is not None))
    return maps


def _merkle_work(job):
    keys, values, hows, lo, hi = job
    maps = merkle_maps(keys, values)
    st = Stats()
    for ia in range(lo, hi):
        ma = maps[ia]
        for mb in maps:
            for (ha, hb) in hows:
                how_a = ("churn", keys) if ha == "churn" else ha
                how_b = ("churn", keys) if hb == "churn" else hb
                try:
                    ta, oa = L.merkle_build(ma, how_a)
                    tb, ob = L.merkle_build(mb, how_b)
                    v, nt = L.merkle_check(ma, mb, ta, tb)
                    out = (tuple((r.start, r.end) for r in ta.diff(tb)))
                except Exception as e:
                    v, nt, oa, ob, out = [(f"MerkleTree/raised/{type(e).__name__}", f"{type(e).__name__}: {e}")], False, 0, 0, ()
                st.exec += 1
                st.trans += oa + ob + 1
                if nt:
                    st.nontriv += 1
                st.outcomes.add(h8((ma, mb, out)))
                st.states.add(h8(out))
                for fp, desc in v:
                    if fp not in st.viol:
                        st.viol[fp] = (desc, {"driver": "merkle", "a": ma, "b": mb, "how_a": ha, "how_b": hb,
                                              "keys": list(keys)})
                if len(st.samples) < 1 and nt and out:
                    st.samples.append({"a": ma, "b": mb, "diff": out})
    return st.out()


def _merkle_hist_work(job):
    """Construction histories: every history of every map of the chunk against every other history of the
    SAME map, and against two representatives (canonical build, last history) of EVERY map, both directions."""
    keys, values, lo, hi = job
    maps = merkle_maps(keys, values)
    st = Stats()
    reps = []
    for m in maps:
        hs = L.merkle_histories(m, keys)
        canon = ["build", sorted(dict(m))]
        for desc in (canon, hs[-1]):
            reps.append((m, desc, L.merkle_construct(m, desc)[0]))

    def judge(ma, ca, ta, mb, cb, tb):
        try:
            v, _nt = L.merkle_check(ma, mb, ta, tb)
            out = tuple((r.start, r.end) for r in ta.diff(tb))
        except Exception as e:
            v, out = [(f"MerkleTree/raised/{type(e).__name__}", f"{type(e).__name__}: {e}")], ()
        st.exec += 1
        st.trans += 1
        if ca[0] != "build" or ca[1] != sorted(ca[1]) or cb[0] != "build" or cb[1] != sorted(cb[1]):
            st.nontriv += 1
        st.outcomes.add(h8((ma, mb, out)))
        st.states.add(h8(out))
        for fp, desc in v:
            fp = fp.replace("/pair", "/construction-history")
            cur = st.viol.get(fp)
            size = len(ma) + len(mb) + len(ca[1]) + len(cb[1])
            if cur is None or cur[1]["size"] > size:
                st.viol[fp] = (desc + f"  [A built by {ca}, B built by {cb}]",
                               {"driver": "merkle", "a": ma, "b": mb, "ca": ca, "cb": cb, "keys": list(keys), "size": size})

    for ia in range(lo, hi):
        ma = maps[ia]
        trees = []
        for desc in L.merkle_histories(ma, keys):
            try:
                t, ops = L.merkle_construct(ma, desc)
            except Exception as e:
                st.viol.setdefault(f"MerkleTree/raised/{type(e).__name__}",
                                   (f"{type(e).__name__}: {e} while constructing {dict(ma)} by {desc}",
                                    {"driver": "merkle", "a": ma, "b": ma, "ca": desc, "cb": desc, "keys": list(keys), "size": 0}))
                continue
            st.trans += ops
            trees.append((desc, t))
        for (ca, ta) in trees:
            for (cb, tb) in trees:
                judge(ma, ca, ta, ma, cb, tb)
            for (mb, cb, tb) in reps:
                if mb != ma:
                    judge(ma, ca, ta, mb, cb, tb)
                    judge(mb, cb, tb, ma, ca, ta)
        if len(st.samples) < 1 and len(trees) > 8:
            st.samples.append({"map": ma, "histories": [d for d, _t in trees[:6]]})
    return st.out()


def _merkle_job(job):
    return _merkle_hist_work(job[1]) if job[0] == "hist" else _merkle_work(job[1])


def run_merkle(run, tier, seed):
    t0 = time.time()
    hows = [("build", "build"), ("update", "build"), ("churn", "update"), ("build", "churn")]
    sets = [(("a", "b", "c"), (1, 2)), (("a", "b"), (1, "1", 2))]
    if tier != "quick":
        sets += [(("a", "b", "c", "d"), (1, 2)), (("10", "9", "a", "aa"), (1, "1")),
                 (("a", "b", "c", "d", "e", "f"), (1,)), (("k1", "k2", "k3", "k4", "k5"), (0, ""))]
    d = run.driver("merkle", {"key_sets": [{"keys": list(k), "values(+absent)": list(v),
                                            "maps": (len(v) + 1) ** len(k)} for k, v in sets],
                              "construction_pairs": hows, "pairs": "all ordered pairs"})
    hist_sets = [(("a", "b", "c"), (1, 2))] + ([] if tier == "quick" else [(("a", "b", "c", "d"), (1, 2))])
    d.bounds["construction_histories"] = {
        "key_sets": [{"keys": list(k), "values(+absent)": list(v)} for k, v in hist_sets],
        "histories": "bulk build from EVERY insertion order of the keys, alone or followed by one update-existing / "
                     "remove / update-new; pure update sequences in every order",
        "pairs": "every history x every history of the same map; every history x {canonical build, one "
                 "non-canonical history} of every map, both directions"}
    jobs = []
    for keys, values in sets:
        nmaps = (len(values) + 1) ** len(keys)
        step = max(1, nmaps // 16)
        for lo in range(0, nmaps, step):
            jobs.append(("pairs", (keys, values, hows, lo, min(nmaps, lo + step))))
    for keys, values in hist_sets:
        nmaps = (len(values) + 1) ** len(keys)
        step = 1 if nmaps > 30 else 2
        for lo in range(0, nmaps, step):
            jobs.append(("hist", (keys, values, lo, min(nmaps, lo + step))))
    states, outcomes = set(), set()
    cpu = 0.0
    allv = []
    for st in pmap(_merkle_job, rotate(jobs, seed), ordered=False):
        cpu += st["cpu"]
        d.executions += st["exec"]
        d.transitions += st["trans"]
        d.nontrivial += st["nontriv"]
        states |= st["states"]
        outcomes |= st["outcomes"]
        allv += [(fp, desc, rep) for fp, (desc, rep) in st["viol"].items()]
        if len(d.samples) < 3:
            d.samples.extend(st["samples"])
    submit(run, allv)
    d.states = len(states)
    d.outcomes = len(outcomes)
    d.extra["nontrivial_rule"] = RULES["merkle"]
    d.extra["worker_cpu_s"] = round(cpu, 1)
    d.wall_s = time.time() - t0


# ---------------------------------------------------------------------------
# entity wrappers inside a real Simulation
# ---------------------------------------------------------------------------
class _TopKView:
    """TopKCollector's public surface presented with the TopK query names."""

    def __init__(self, c):
        self.c = c

    def top(self, n=None):
        return self.c.top(n)

    def estimate(self, x):
        return self.c.estimate(x)

    def __contains__(self, x):
        return x in self.c

    def estimate_with_error(self, x):
        for fe in self.c.top(None):
            if fe.item == x and type(fe.item) is type(x):
                return fe
        from happysimulator.sketching.base import FrequencyEstimate
        return FrequencyEstimate(item=x, count=self.c.estimate(x), error=self.c.max_error())

    @property
    def item_count(self):
        return self.c.total_count


class _QView:
    def __init__(self, c, n):
        self.c = c
        self.item_count = c.sample_count
        self.centroid_count = 0 if n > 1 else 1

    def quantile(self, q):
        return self.c.quantile(q)


def make_wrapper(wspec):
    from happysimulator.components.sketching import QuantileEstimator, SketchCollector, TopKCollector
    kind, spec, weighted = wspec
    fam = make_family(spec)

    def val(e):
        return e.context.get("v")

    def wt(e):
        return e.context["w"]

    if kind == "SketchCollector":
        c = SketchCollector("col", sketch=fam.new(), value_extractor=val, weight_extractor=wt if weighted else None)
        view = lambda n: c.sketch  # noqa: E731
    elif kind == "TopKCollector":
        c = TopKCollector("col", k=spec[1]["k"], value_extractor=val, count_extractor=wt if weighted else None)
        view = lambda n: _TopKView(c)  # noqa: E731
    else:
        c = QuantileEstimator("col", value_extractor=val, compression=spec[1]["c"])
        view = lambda n: _QView(c, n)  # noqa: E731
    return fam, c, view


def run_wrapper_case(wspec, events, timing):
    """events: list of (item|None, w).  Returns (violations, nontrivial, outcome, sim outcome)."""
    kind, spec, weighted = wspec
    fam, col, view = make_wrapper(wspec)
    sim = Simulation(entities=[col])
    evs = []
    for i, (x, w) in enumerate(events):
        t = 0 if timing == "same-instant" else i
        ctx = {"metadata": {"i": i}, "w": w}
        if x is not None:
            ctx["v"] = x
        evs.append(Event(time=Instant(t), event_type="item", target=col, context=ctx))
    sim.schedule(evs)
    res = run_guarded(sim, max_events=len(evs) + 50, storm=len(evs) + 20)
    stream = [(x, w if weighted else 1) for (x, w) in events if x is not None]
    sk = view(sum(w for _x, w in stream))
    v, nt, _o = fam.check(sk, stream, "simulation")
    tag = f"{kind}[{fam.kind}]"
    v = [(fp.replace(fam.kind + "/", tag + "/", 1), desc) for fp, desc in v]
    if res["outcome"] != "done":
        v.append((f"{tag}/run-did-not-finish/{res['outcome']}", f"simulation outcome {res}"))
    out = tuple(fam.observe(sk)) if kind == "SketchCollector" else repr(v)
    return v, nt, out, res


def _wrap_work(job):
    wspec, symbols, maxlen, first, timings = job
    st = Stats()
    for n in range(0 if first is None else 1, (1 if first is None else maxlen + 1)):
        for rest in itertools.product(symbols, repeat=max(0, n - 1)):
            events = ([first] if first is not None else []) + list(rest)
            for timing in timings:
                try:
                    v, nt, out, res = run_wrapper_case(wspec, events, timing)
                except Exception as e:
                    v, nt, out, res = [(f"{wspec[0]}[{wspec[1][0]}]/raised-on-valid-stream/{type(e).__name__}",
                                        f"{type(e).__name__}: {e}")], False, None, {"events": 0}
                st.exec += 1
                st.trans += res["events"]
                if nt:
                    st.nontriv += 1
                hh = h8(out)
                st.states.add(hh)
                st.outcomes.add(hh)
                for fp, desc in v:
                    if fp not in st.viol:
                        st.viol[fp] = (desc, {"driver": "wrappers", "wspec": wspec, "events": events, "timing": timing})
                if len(st.samples) < 1 and nt and n >= 3:
                    st.samples.append({"wrapper": f"{wspec[0]}[{wspec[1][0]}]", "events": events, "timing": timing})
    return st.out()


def run_wrappers(run, tier, seed):
    t0 = time.time()
    q = tier == "quick"
    maxlen = 4 if q else 5
    timings = ["same-instant", "one-per-ns"]
    w = []
    bi, bp, _ = L.bloom_alphabet(8, 2, 0, "int", 3)
    ci, cp, _ = L.cms_alphabet(4, 2, 0, "int", 3)
    hi, hp, _, hs = L.hll_alphabet(4, 0, "int", 3)
    bp, cp = bp[:10], cp[:10]
    # item 0 is deliberately in every wrapper alphabet (a falsy but real value)
    def with0(items):
        return ([0] + [x for x in items if x != 0])[:3]
    specs = [
        ("SketchCollector", ("BloomFilter", {"m": 8, "h": 2, "seed": 0, "items": with0(bi), "probes": bp}), True),
        ("SketchCollector", ("CountMinSketch", {"w": 4, "d": 2, "seed": 0, "items": with0(ci), "probes": cp}), True),
        ("SketchCollector", ("CountMinSketch", {"w": 4, "d": 2, "seed": 0, "items": with0(ci), "probes": cp}), False),
        ("SketchCollector", ("TopK", {"k": 2, "items": [0, 1, "x"]}), True),
        ("SketchCollector", ("TDigest", {"c": 5, "items": [0.0, -4.0, 16.0]}), True),
        ("SketchCollector", ("ReservoirSampler", {"k": 2, "seed": 0, "items": [0, 1, 2]}), True),
        ("TopKCollector", ("TopK", {"k": 1, "items": [0, 1, "x"]}), True),
        ("TopKCollector", ("TopK", {"k": 2, "items": [0, 1, "x"]}), True),
        ("TopKCollector", ("TopK", {"k": 2, "items": [0, 1, "x"]}), False),
        ("QuantileEstimator", ("TDigest", {"c": 5, "items": [0.0, -4.0, 16.0]}), False),
        ("QuantileEstimator", ("TDigest", {"c": 2, "items": [0.0, -4.0, 16.0]}), False),
    ]
    if not q:
        specs.append(("SketchCollector", ("HyperLogLog", {"p": 4, "seed": 0, "items": with0(hi), "probes": hp,
                                                          "saturators": hs}), True))
    jobs = []
    for ws in specs:
        items = ws[1][1]["items"]
        symbols = symbols_of(items, (1, 2) if ws[2] else (1,)) + [(None, 1)]
        w.append({"wrapper": ws[0], "sketch": make_family(ws[1]).label(), "weighted": ws[2],
                  "event_alphabet": [list(s) for s in symbols], "max_events": maxlen,
                  "sequences": n_streams(len(symbols), maxlen)})
        jobs.append((ws, symbols, maxlen, None, timings))
        for s in symbols:
            jobs.append((ws, symbols, maxlen, s, timings))
    d = run.driver("wrappers", {"wrappers": w, "timings": timings,
                                "horizon": "max_events = events + 50, storm guard at one instant"})
    states, outcomes = set(), set()
    cpu = 0.0
    allv = []
    for st in pmap(_wrap_work, rotate(jobs, seed), ordered=False):
        cpu += st["cpu"]
        d.executions += st["exec"]
        d.transitions += st["trans"]
        d.nontrivial += st["nontriv"]
        states |= st["states"]
        outcomes |= st["outcomes"]
        allv += [(fp, desc, rep) for fp, (desc, rep) in st["viol"].items()]
        if len(d.samples) < 3:
            d.samples.extend(st["samples"])
    submit(run, allv)
    d.states = len(states)
    d.outcomes = len(outcomes)
    d.extra["nontrivial_rule"] = RULES["wrappers"]
    d.extra["worker_cpu_s"] = round(cpu, 1)
    d.wall_s = time.time() - t0


# ---------------------------------------------------------------------------
def main(tier, seed, only=None):
    run = Run(PID, tier, seed, "model_checking",
              rule=("every stream (sequence of (item, weight)) up to the length bound over a colliding alphabet is fed "
                    "to the real sketch; for Bloom/Count-Min/HyperLogLog every split point of every stream is merged and "
                    "compared with the sketch of the whole stream. executions = streams judged + (stream, split) pairs "
                    "judged (+ simulations for the wrappers, + ordered map pairs x constructions for Merkle), distinct "
                    "by construction. For bloom/cms/hll the library calls behind them are deduplicated on the pickled "
                    "sketch state: transitions = add/merge/observe calls actually executed (once per distinct state and "
                    "input), states = distinct pickled states reached; for the other drivers transitions = library "
                    "calls of the straight executions and states = distinct public query results. non-trivial by the "
                    "per-driver rule in drivers.<name>.nontrivial_rule"),
              assumptions=["exact reference = collections.Counter / set / min / max of the generated stream",
                           "PYTHONHASHSEED is pinned by the CLI; colliding alphabets are recomputed at start-up "
                           "through public queries, so they follow the hash functions actually in use",
                           "t-digest values are small integers/dyadics; float tolerance 1e-9"])
    P = plan(tier)
    for drv in ("bloom", "cms", "hll", "topk", "tdigest", "reservoir"):
        if only and drv not in only:
            continue
        run_stream_driver(run, drv, P[drv], seed)
    if not only or "ops" in only:
        OPS.run_ops_driver(run, tier, seed, pmap, rotate)
    if not only or "topk-epochs" in only:
        OPS.run_topk_epochs(run, tier, seed, pmap, rotate)
    if not only or "merkle" in only:
        run_merkle(run, tier, seed)
    if not only or "wrappers" in only:
        run_wrappers(run, tier, seed)
    return run.finish()


# ---------------------------------------------------------------------------
def replay(data):
    rep = data["replay"]
    drv = rep["driver"]
    if drv == "ops":
        return OPS.replay_ops(rep)
    if drv == "topk-epochs":
        return OPS.replay_topk_epochs(rep)
    if drv == "merkle":
        ma, mb = thaw(rep["a"]), thaw(rep["b"])
        keys = tuple(rep["keys"])
        if "ca" in rep:
            ta, _ = L.merkle_construct(ma, rep["ca"])
            tb, _ = L.merkle_construct(mb, rep["cb"])
            print(f"map A = {dict(ma)} constructed by {rep['ca']}")
            print(f"map B = {dict(mb)} constructed by {rep['cb']}")
            print(f"  A.root_hash = {ta.root_hash[:16]}  B.root_hash = {tb.root_hash[:16]}")
        else:
            ha = ("churn", keys) if rep["how_a"] == "churn" else rep["how_a"]
            hb = ("churn", keys) if rep["how_b"] == "churn" else rep["how_b"]
            ta, _ = L.merkle_build(ma, ha)
            tb, _ = L.merkle_build(mb, hb)
            print(f"map A = {dict(ma)} (constructed by {rep['how_a']}), map B = {dict(mb)} (constructed by {rep['how_b']})")
        print(f"  A.diff(B) = {ta.diff(tb)!r}")
        v, _ = L.merkle_check(ma, mb, ta, tb)
        for fp, desc in v:
            if "ca" in rep:
                fp = fp.replace("/pair", "/construction-history")
            print(f"  !! {fp}: {desc}")
        return 1 if v else 0
    if drv == "wrappers":
        ws = rep["wspec"]
        wspec = (ws[0], (ws[1][0], ws[1][1]), ws[2])
        events = [tuple(e) for e in rep["events"]]
        print(f"wrapper {wspec[0]} around {wspec[1][0]} {wspec[1][1]}; timing {rep['timing']}")
        for i, (x, w) in enumerate(events):
            print(f"  event {i}: value={x!r} weight={w}")
        v, _nt, _out, res = run_wrapper_case(wspec, events, rep["timing"])
        print(f"  simulation: {res}")
        for fp, desc in v:
            print(f"  !! {fp}: {desc}")
        return 1 if v else 0
    spec = (rep["spec"][0], rep["spec"][1])
    fam = make_family(spec)
    stream = [tuple(s) for s in rep["stream"]]
    split = rep.get("split")
    print(f"{fam.label()}  alphabet={fam.items}")

    def show(sk, title):
        print(f"  {title}:")
        for lab, val in fam.observe(sk):
            print(f"     {lab} = {val!r}")

    try:
        found = _replay_stream(fam, stream, split, show, rep.get("queried"))
    except Exception as e:
        print(f"  !! raised {type(e).__name__}: {e}")
        return 1
    for fp, desc in found:
        print(f"  !! {fp}: {desc}")
    return 1 if found else 0


def _replay_stream(fam, stream, split, show, queried=None):
    found = []
    qnote = {None: "", "every": "  [every read-only query called after construction and after every add]",
             "end": "  [every read-only query called once at the end / on both halves before merge]",
             "end-left": "  [every read-only query called on A right before merge]",
             "end-right": "  [every read-only query called on B right before merge]"}[queried]
    if split is None:
        each = queried == "every" or fam.cfg.get("mode") == "each"
        sk = fam.new()
        if each:
            fam.touch(sk)
        for (x, w) in stream:
            add(sk, x, w)
            print(f"  add({x!r}, count={w})" + ("   then every read-only query" if each else ""))
            if each:
                fam.touch(sk)
        if queried == "end":
            fam.touch(sk)
            print("  every read-only query called once")
        found = fam.check(sk, stream, "queried" if queried else "direct")[0]
        show(sk, "public observation" + qnote)
        if queried and (fam.mergeable or fam.query_pure):
            f = fam.build(stream)
            show(f, "same stream, never queried")
            oq, o0 = tuple(fam.observe(sk)), tuple(fam.observe(f))
            if oq != o0:
                lab, va, vb = _first_diff(oq, o0, fam.items + fam.probes)
                found.append((f"{fam.kind}/read-only-queries-change-answers/{lab}", f"{lab}: {va!r} != {vb!r}"))
    else:
        u, v_ = stream[:split], stream[split:]
        f = fam.build(stream)
        if queried:
            a, b = build_queried_halves(fam, stream, split, queried)
        else:
            a, b = fam.build(u), fam.build(v_)
        print(f"  A = sketch({u})   B = sketch({v_})   F = sketch({stream})" + qnote)
        a.merge(b)
        print("  A.merge(B)")
        if fam.mergeable:
            oa, of = tuple(fam.observe(a)), tuple(fam.observe(f))
            show(a, "merged")
            show(f, "sketch of the concatenated stream")
            tag = "merge-after-queries-differs-from-concatenation" if queried else "merge-differs-from-concatenation"
            if oa != of:
                lab, va, vb = _first_diff(oa, of, fam.items + fam.probes)
                found.append((f"{fam.kind}/{tag}/{lab}", f"{lab}: {va!r} != {vb!r}"))
            else:
                r = _deep_distinguish(fam, a, f)
                if r is not None:
                    y, (lab, va, vb) = r
                    found.append((f"{fam.kind}/{tag}/future-{lab}",
                                  f"after also adding {y!r}: {lab}: {va!r} != {vb!r}"))
        else:
            found = fam.check(a, stream, "merged-after-queries" if queried else "merged")[0]
            show(a, "merged")
    return found

"""C16 sequential driver: BFS over ALL operation sequences (with canonical-state dedup) of a cache
layer, every operation run to completion inside a real Simulation by a harness client process."""
from __future__ import annotations

import pickle
import time

from mc.evidence import digest

from props.c16_common import (
    KEYS, NS, POLICY_CLASS, READS, CachedSys, Instant, OpClient, Simulation, TierSys, V,
    canon_policy, is_val, layer_check, run_guarded, start_event, vstr,
)

GAP_NS = 1 * NS
UNKNOWN = ("?",)  # model value of a key after a reported loss, until it is written again
MAX_EVENTS = 400


def make_sys(cfg):
    if cfg["sys"] == "cs":
        return CachedSys(cfg["pol"], cfg["wt"], cfg["cap"], cfg.get("lat", "R4W2D3"), cfg.get("rseed", 1))
    return TierSys(cfg["pol"], cfg["promo"], cfg["cap"], cfg.get("wt", True), cfg.get("lat", "R4W2D3"),
                   cfg.get("rseed", 1))


def alphabet(cfg):
    keys = KEYS[: cfg.get("nkeys", 3)]
    if cfg["sys"] == "cs":
        kinds = ["get", "put", "del", "inv"]
        ops = [(k, key) for k in kinds for key in keys] + [("flush",)]
        if cfg.get("inv_all"):
            ops.append(("invall",))
        return ops
    kinds = ["get", "put", "del", "inv", "g2"]
    ops = [(k, key) for k in kinds for key in keys]
    if not cfg.get("wt", True):
        ops.append(("flush",))
    return ops


class SeqWorld:
    def __init__(self, cfg):
        self.cfg = cfg
        self.sys = make_sys(cfg)
        self.truth = dict(self.sys.initial)  # value of the last completed write per key
        self.cause = dict.fromkeys(KEYS)  # why the key last left the cache (fingerprint shape only)
        self.nver = 1
        self.now = 0
        self.depth = 0
        self.dead = False
        self.pending = []
        self.last = None  # observation of the last transition (not part of the canon)

    # -- BFS protocol -------------------------------------------------------
    def enabled(self):
        return alphabet(self.cfg)

    def within(self):
        return (not self.dead) and self.depth < self.cfg["depth"]

    def check(self):
        out, self.pending = self.pending, []
        return out

    def _held(self):
        return {lab: set(st.get_cached_keys()) for lab, st, _p in self.sys.layers()}

    def _stat(self):
        ev = wb = 0
        for _l, st, _p in self.sys.layers():
            s = st.stats
            ev += s.evictions
            wb += s.writebacks
        return ev, wb

    def fp(self, clause, shape, layer=None):
        s = self.sys
        if clause in ("capacity-exceeded", "policy-keys"):
            pol = s.pol if layer in ("cache", "L1") else "LRU"
            comp = s.kind if layer == "cache" else f"{s.kind}.{layer}"
            return f"{comp}/{POLICY_CLASS[pol]}/{clause}/{shape}"
        return f"{s.kind}/{s.mode}/{clause}/sequential/{shape}"

    def apply(self, lab):
        s = self.sys
        lab = tuple(lab)
        kind = lab[0]
        key = lab[1] if len(lab) > 1 else None
        op = lab
        if kind == "put":
            op = ("put", key, V(key, self.nver))
            self.nver += 1
        held0 = self._held()
        ev0, wb0 = self._stat()
        log = []
        if kind == "invall":
            s.cache.invalidate_all()
            rec = {"op": op, "inv": self.now, "resp": self.now, "res": None, "hit": None}
            err = None
            outcome = "done"
        else:
            cl = OpClient("client", s, log)
            sim = Simulation(start_time=Instant(self.now), entities=[cl, *s.entities()])
            sim.schedule(start_event(cl, self.now, [op]))
            err = None
            outcome = "done"
            try:
                g = run_guarded(sim, max_events=MAX_EVENTS)
                outcome = g["outcome"]
            except Exception as exc:  # noqa: BLE001  an operation raising is an observed outcome
                err = exc
            rec = log[0] if log else {"op": op, "inv": self.now, "resp": None, "res": None, "hit": None}
        self.depth += 1
        viol = []
        finished = err is None and rec["resp"] is not None
        end = rec["resp"] if finished else self.now
        self.now = end + GAP_NS
        ev1, wb1 = self._stat()
        self.last = {"op": op, "res": rec["res"], "hit": rec["hit"], "finished": finished,
                     "err": None if err is None else f"{type(err).__name__}: {err}",
                     "evicted": ev1 - ev0, "writebacks": wb1 - wb0, "outcome": outcome,
                     "dur": (end - rec["inv"]) // (NS // 2) / 2}
        if not finished:
            # the statement does not speak about operations that raise or never return, except that a
            # read which raises did not return the written value
            if kind in READS and err is not None:
                viol.append((self.fp("read-raised", type(err).__name__),
                             f"{s.label()}: {op} raised {type(err).__name__}: {err}"))
            self.dead = True
            self.pending = viol
            return
        # 1+2: capacity, policy-tracked keys == held keys, per layer
        for label, store, pol in s.layers():
            for clause, shape, desc in layer_check(label, store, pol):
                viol.append((self.fp(clause, shape, label),
                             f"{s.label()} after {fmt_op(op)}: {desc}"))
        # model of completed writes
        if kind == "put":
            self.truth[key] = op[2]
        elif kind == "del":
            self.truth[key] = None
        # 3: read after completed write
        if kind in READS:
            exp = self.truth[key]
            if exp != UNKNOWN and rec["res"] != exp:
                shape = f"{'hit' if rec['hit'] else 'miss'}-after-{self.cause.get(key) or 'no-removal'}"
                viol.append((self.fp("stale-read", shape),
                             f"{s.label()}: {fmt_op(op)} returned {vstr(rec['res'])} but the "
                             f"last completed write to {key!r} was {vstr(exp)}"))
                self.truth[key] = rec["res"]  # resynchronise the model and keep exploring
        # 4: write-back data not discarded before reaching the backing store
        held1 = self._held()
        anyheld0 = set().union(*held0.values())
        anyheld1 = set().union(*held1.values())
        # the harness configured which layer is write-back
        wb_layers = [(lab_, st) for lab_, st, _p in s.layers() if lab_ in ("cache", "L1") and not s.wt]
        if wb_layers:
            for k in KEYS:
                tv = self.truth[k]
                if tv is None or tv == UNKNOWN:
                    continue
                bv = s.backing.get_sync(k)
                if bv == tv:
                    continue
                if any(k in st.get_dirty_keys() and st.contains_cached(k) for _l, st in wb_layers):
                    continue
                if k in anyheld0 and k not in anyheld1:  # the entry left the cache during this operation
                    how = "on-" + ("invalidate" if kind in ("inv", "invall") else "delete" if kind == "del"
                                   else "eviction")
                else:  # still cached (or never was) but neither dirty nor persisted
                    how = f"unflushed-after-{kind}"
                viol.append((self.fp("dirty-discarded", how),
                             f"{s.label()}: after {fmt_op(op)} the acknowledged write "
                             f"{k!r}={vstr(tv)} is neither in the backing store (holds {vstr(bv)}) nor a cached dirty "
                             f"entry (cached={sorted(anyheld1)}, dirty={sorted(wb_layers[0][1].get_dirty_keys())})"))
                self.truth[k] = UNKNOWN  # reported once; the key is unconstrained until written again
        # ghost: why a key left the cache
        for k in KEYS:
            if k in anyheld1:
                self.cause[k] = None
            elif k in anyheld0:
                self.cause[k] = ("invalidate" if kind in ("inv", "invall") else "delete" if kind == "del"
                                 else "eviction")
        self.pending = viol

    # -- canonical state ----------------------------------------------------
    def canon(self):
        ren = {}

        def rv(v):
            if is_val(v):
                m = ren.setdefault(v[1], {})
                return ("v", v[1], m.setdefault(v[2], len(m)))
            return v

        s = self.sys
        now_s = self.now / NS
        head = (tuple((k, rv(self.truth[k])) for k in KEYS), tuple(self.cause[k] for k in KEYS), self.dead)
        try:
            parts = []
            for _lab, st, pol in s.layers():
                parts.append((tuple((k, rv(v)) for k, v in st._cache.items()), tuple(st._dirty_keys),
                              canon_policy(pol, now_s)))
            b = s.backing
            parts.append((tuple((k, rv(v)) for k, v in b._data.items()), tuple(b._insertion_order)))
            if s.kind == "MultiTierCache":
                parts.append(tuple(sorted((k, min(c, 2)) for k, c in s.cache._access_counts.items())))
            return (head, tuple(parts))
        except AttributeError:
            # refactored internals: fall back to an over-fine canon (costs time, never soundness)
            blob = []
            for _lab, st, pol in s.layers():
                blob.append(repr(sorted((k, repr(v)) for k, v in vars(st).items() if k != "_clock")))
                blob.append(repr(sorted((k, repr(v)) for k, v in vars(pol).items())))
            blob.append(repr(sorted((k, repr(v)) for k, v in vars(s.backing).items() if k != "_clock")))
            return (head, tuple(blob), self.now)

    def describe(self):
        s = self.sys
        parts = []
        for lab, st, _p in s.layers():
            parts.append(f"{lab}: held={sorted(st.get_cached_keys())} dirty={sorted(st.get_dirty_keys())}")
        parts.append("backing={" + ", ".join(f"{k}:{vstr(s.backing.get_sync(k))}" for k in KEYS) + "}")
        parts.append("model={" + ", ".join(f"{k}:{'?' if v == UNKNOWN else vstr(v)}" for k, v in self.truth.items()) + "}")
        if self.last:
            l_ = self.last
            parts.insert(0, f"result={vstr(l_['res']) if is_val(l_['res']) or l_['res'] is None else l_['res']} "
                            f"hit={l_['hit']} evicted={l_['evicted']} writebacks={l_['writebacks']} t={self.now / NS:g}")
        return "  ".join(parts)


def fmt_op(op):
    if len(op) == 1:
        return f"{op[0]}()"
    if len(op) == 2:
        return f"{op[0]}({op[1]})"
    return f"{op[0]}({op[1]}={vstr(op[2])})"


def seq_job(cfg):
    """Exhaustive BFS for one configuration.  Returns plain-data stats."""
    t0 = time.time()
    w0 = SeqWorld(cfg)
    k0 = digest(w0.canon())
    parents = {k0: (None, None)}
    frontier = [(k0, pickle.dumps(w0, protocol=pickle.HIGHEST_PROTOCOL))]
    labels = w0.enabled()
    stats = {"cfg": cfg, "states": 1, "transitions": 0, "nontrivial": 0, "outcomes": set(), "viol": {},
             "levels": [], "samples": [], "unfinished": 0, "max_seconds_hit": False}
    budget = cfg.get("max_seconds")

    def trace_of(key, last=None):
        labs = []
        while key is not None:
            pk, lab = parents[key]
            if lab is not None:
                labs.append(lab)
            key = pk
        labs.reverse()
        if last is not None:
            labs.append(last)
        return labs

    new_states = 1
    while frontier:
        stats["levels"].append(len(frontier))
        nxt = []
        new_states = 0
        for pkey, blob in frontier:
            for lab in labels:
                w = pickle.loads(blob)
                w.apply(lab)
                stats["transitions"] += 1
                l_ = w.last
                if not l_["finished"]:
                    stats["unfinished"] += 1
                if l_["evicted"] or l_["writebacks"]:
                    stats["nontrivial"] += 1
                stats["outcomes"].add((lab[0], l_["hit"], l_["evicted"], l_["writebacks"], l_["res"] is None,
                                       l_["dur"]))
                for fp, desc in w.check():
                    if fp not in stats["viol"]:
                        stats["viol"][fp] = (desc, {"driver": cfg["driver"], "cfg": cfg,
                                                    "trace": trace_of(pkey, lab)})
                key = digest(w.canon())
                if key in parents:
                    continue
                parents[key] = (pkey, lab)
                stats["states"] += 1
                new_states += 1
                if w.within():
                    nxt.append((key, pickle.dumps(w, protocol=pickle.HIGHEST_PROTOCOL)))
            if budget is not None and time.time() - t0 > budget:
                stats["max_seconds_hit"] = True
                nxt = []
                break
        if nxt:  # keep a sample from the deepest level explored
            stats["samples"] = [{"cfg": cfg, "trace": trace_of(nxt[len(nxt) // 2][0])}]
        frontier = nxt
    stats["outcomes"] = sorted(stats["outcomes"], key=repr)
    # the canonical state space closed below the depth bound: longer sequences reach no new state
    stats["closed"] = new_states == 0 and not stats["max_seconds_hit"]
    stats["wall"] = time.time() - t0
    return stats


def replay_seq(rep):
    cfg = rep["cfg"]
    w = SeqWorld(cfg)
    print(f"driver={rep['driver']} cfg={cfg}")
    print(f"  initial: {w.describe()}")
    found = []
    for i, lab in enumerate(rep["trace"]):
        lab = tuple(lab)
        w.apply(lab)
        print(f"  step {i}: {fmt_op(w.last['op'])} -> {w.describe()}")
        for fp, desc in w.check():
            print(f"    !! {fp}: {desc}")
            found.append(fp)
    return found

"""C16 shared pieces: value tokens, policy factory, client processes, oracles.

Everything that touches the library goes through its public surface
(generator API, ``cache_size``, ``get_cached_keys()``, ``get_dirty_keys()``,
``contains_cached()``, the policy's own ``evict()`` on a deep copy,
``KVStore.get_sync``).  Private attributes are read only to build canonical
state hashes (with a fallback when an attribute is missing).
"""
from __future__ import annotations

import copy
import random as _random

from mc.harness import Entity, Event, Instant, Simulation, run_guarded  # noqa: F401  (sets import root)

from happysimulator.components.datastore.cached_store import CachedStore
from happysimulator.components.datastore.eviction_policies import (
    ClockEviction,
    FIFOEviction,
    LFUEviction,
    LRUEviction,
    RandomEviction,
    SampledLRUEviction,
    SLRUEviction,
    TTLEviction,
    TwoQueueEviction,
)
from happysimulator.components.datastore.kv_store import KVStore
from happysimulator.components.datastore.multi_tier_cache import MultiTierCache

NS = 1_000_000_000  # one tick = 1 s: every latency / offset below is a multiple of 0.5 s => exact ns
KEYS = ("a", "b", "c")
POLICIES = ["LRU", "LFU", "TTL", "FIFO", "Random", "SLRU", "SampledLRU", "Clock", "TwoQueue"]
SEEDED = {"Random", "SampledLRU"}
POLICY_CLASS = {"LRU": "LRUEviction", "LFU": "LFUEviction", "TTL": "TTLEviction", "FIFO": "FIFOEviction",
                "Random": "RandomEviction", "SLRU": "SLRUEviction", "SampledLRU": "SampledLRUEviction",
                "Clock": "ClockEviction", "TwoQueue": "TwoQueueEviction"}
TTL_TICKS = 6.0  # TTLEviction ttl: a few operations long, so both the "expired" and the "oldest" branch run


def V(key, n):
    """A written value: opaque to the library, unique per write."""
    return ("v", key, n)


def is_val(v):
    return isinstance(v, tuple) and len(v) == 3 and v[0] == "v"


def vstr(v):
    return "None" if v is None else (f"{v[1]}#{v[2]}" if is_val(v) else repr(v))


class SimClock:
    """clock_func for TTLEviction: the simulated time of the entity that owns the policy
    (TTLEviction defaults to the wall clock, an environment answer the harness must own)."""

    def __init__(self):
        self.ent = None

    def __call__(self):
        return self.ent.now.to_seconds()

    def __deepcopy__(self, memo):
        return self


def make_policy(name, clk, rseed=1):
    if name == "LRU":
        return LRUEviction()
    if name == "LFU":
        return LFUEviction()
    if name == "TTL":
        return TTLEviction(ttl=TTL_TICKS, clock_func=clk)
    if name == "FIFO":
        return FIFOEviction()
    if name == "Random":
        return RandomEviction(seed=rseed)
    if name == "SLRU":
        return SLRUEviction(protected_ratio=0.5)
    if name == "SampledLRU":
        return SampledLRUEviction(sample_size=1, seed=rseed)
    if name == "Clock":
        return ClockEviction()
    if name == "TwoQueue":
        return TwoQueueEviction(kin_ratio=0.5)
    raise KeyError(name)


# ---------------------------------------------------------------------------
# observation through the public surface
# ---------------------------------------------------------------------------
def tracked_keys(policy, limit):
    """Keys the eviction policy tracks = what its public evict() hands out until None (on a deep copy)."""
    p = copy.deepcopy(policy)
    out = []
    for _ in range(limit):
        k = p.evict()
        if k is None:
            return out
        out.append(k)
    out.append("<more>")
    return out


def layer_check(label, store, policy):
    """Capacity and policy-vs-held-keys clauses for one CachedStore layer.
    Returns list of (clause, shape, description)."""
    out = []
    size, cap = store.cache_size, store.cache_capacity
    held = sorted(store.get_cached_keys())
    if size > cap or len(held) > cap:
        out.append(("capacity-exceeded", "size-over-capacity",
                    f"{label}: cache_size={size} held={held} > capacity={cap}"))
    tracked = tracked_keys(policy, cap + len(held) + 4)
    st = sorted(tracked)
    if st != held:
        if len(set(tracked)) != len(tracked):
            shape = "duplicate-tracked"
        elif set(tracked) - set(held):
            shape = "tracked-not-held"
        else:
            shape = "held-not-tracked"
        out.append(("policy-keys", shape,
                    f"{label}: eviction policy tracks {tracked} (drained via evict() on a copy) but cache holds {held}"))
    return out


# ---------------------------------------------------------------------------
# interval register (regular register with concurrent writes, lenient on ties)
# ---------------------------------------------------------------------------
NEG = -(10 ** 30)


def allowed_values(writes, r_inv, r_resp):
    """writes: list of (inv, resp|None, value).  A read [r_inv, r_resp] may return the value of any
    write that began before the read ended and that is not *definitely* overwritten, i.e. there is no
    other write that began strictly after it completed and completed strictly before the read was
    issued.  Same-instant ties count as concurrent (the statement does not order them)."""
    out = []
    for i, (inv, resp, val) in enumerate(writes):
        if inv > r_resp:
            continue
        sup = False
        if resp is not None:
            for j, (inv2, resp2, _v2) in enumerate(writes):
                if j != i and resp2 is not None and resp < inv2 and resp2 < r_inv:
                    sup = True
                    break
        if not sup:
            out.append(val)
    return out


# ---------------------------------------------------------------------------
# systems under test
# ---------------------------------------------------------------------------
LAT_SETS = {
    "R4W2D3": (4.0, 2.0, 3.0),  # backing read / write / delete latency (ticks)
    "R2W4D1": (2.0, 4.0, 1.0),
}
CACHE_LAT = 1.0


class CachedSys:
    """KVStore + CachedStore (one policy, one write mode, one capacity)."""

    kind = "CachedStore"

    def __init__(self, pol, wt, cap, lat="R4W2D3", rseed=1):
        R, W, D = LAT_SETS[lat]
        self.pol, self.wt, self.cap, self.lat = pol, wt, cap, lat
        self.clk = SimClock()
        self.policy = make_policy(pol, self.clk, rseed)
        self.backing = KVStore("db", read_latency=R, write_latency=W, delete_latency=D)
        self.cache = CachedStore("cache", self.backing, cap, self.policy,
                                 cache_read_latency=CACHE_LAT, write_through=wt)
        self.clk.ent = self.cache
        self.initial = {"a": V("a", 0), "b": V("b", 0), "c": None}
        for k, v in self.initial.items():
            if v is not None:
                self.backing.put_sync(k, v)

    @property
    def mode(self):
        return "write-through" if self.wt else "write-back"

    def label(self):
        return f"CachedStore({self.pol}, {self.mode}, cap={self.cap}, latencies {self.lat})"

    def entities(self):
        return [self.cache, self.backing]

    def layers(self):
        return [("cache", self.cache, self.policy)]

    def is_cached(self, key):
        return self.cache.contains_cached(key)

    def do(self, op):
        kind = op[0]
        if kind == "get":
            r = yield from self.cache.get(op[1])
            return r
        if kind == "put":
            yield from self.cache.put(op[1], op[2])
            return None
        if kind == "del":
            r = yield from self.cache.delete(op[1])
            return r
        if kind == "inv":
            self.cache.invalidate(op[1])
            return None
        if kind == "iget":  # one client: invalidate the key, then read it at the same instant (a sure miss)
            self.cache.invalidate(op[1])
            r = yield from self.cache.get(op[1])
            return r
        if kind == "flush":
            r = yield from self.cache.flush()
            return r
        raise KeyError(kind)


class TierSys:
    """KVStore + two CachedStore tiers + MultiTierCache."""

    kind = "MultiTierCache"

    def __init__(self, pol, promo, cap1, wt1=True, lat="R4W2D3", rseed=1):
        R, W, D = LAT_SETS[lat]
        self.pol, self.promo, self.cap, self.wt, self.lat = pol, promo, cap1, wt1, lat
        self.backing = KVStore("db", read_latency=R, write_latency=W, delete_latency=D)
        self.clk1, self.clk2 = SimClock(), SimClock()
        self.p1 = make_policy(pol, self.clk1, rseed)
        self.p2 = make_policy("LRU", self.clk2, rseed)
        self.l1 = CachedStore("l1", self.backing, cap1, self.p1, cache_read_latency=CACHE_LAT, write_through=wt1)
        # the slower tier's hit takes 3 ticks, so an L2 hit can straddle another operation's steps
        self.l2 = CachedStore("l2", self.backing, 2, self.p2, cache_read_latency=3.0, write_through=True)
        self.clk1.ent, self.clk2.ent = self.l1, self.l2
        self.cache = MultiTierCache("mtc", tiers=[self.l1, self.l2], backing_store=self.backing,
                                    promotion_policy=promo)
        self.initial = {"a": V("a", 0), "b": V("b", 0), "c": None}
        for k, v in self.initial.items():
            if v is not None:
                self.backing.put_sync(k, v)

    @property
    def mode(self):
        return "l1-write-through" if self.wt else "l1-write-back"

    def label(self):
        return (f"MultiTierCache(L1={self.pol} cap={self.cap} {self.mode}, L2=LRU cap=2, promotion={self.promo}, "
                f"latencies {self.lat})")

    def entities(self):
        return [self.cache, self.l1, self.l2, self.backing]

    def layers(self):
        return [("L1", self.l1, self.p1), ("L2", self.l2, self.p2)]

    def is_cached(self, key):
        return self.l1.contains_cached(key) or self.l2.contains_cached(key)

    def do(self, op):
        kind = op[0]
        if kind == "get":
            r = yield from self.cache.get(op[1])
            return r
        if kind == "g2":  # a read through the slower tier itself (what a CacheWarmer on that tier does)
            r = yield from self.l2.get(op[1])
            return r
        if kind == "put":
            yield from self.cache.put(op[1], op[2])
            return None
        if kind == "del":
            r = yield from self.cache.delete(op[1])
            return r
        if kind == "inv":
            self.cache.invalidate(op[1])
            return None
        if kind == "flush":  # only meaningful with a write-back L1
            r = yield from self.l1.flush()
            return r
        raise KeyError(kind)


READS = ("get", "g2", "iget")
WRITES = ("put", "del")


class OpClient(Entity):
    """Harness client process: runs a list of operations one after the other through the
    generator API, logging invocation / response instants and results."""

    def __init__(self, name, sysm, log, watch=None, gap=1.0):
        super().__init__(name)
        self.sysm = sysm
        self.log = log
        self.watch = watch
        self.gap = gap
        self.done = False

    def handle_event(self, event):
        return self._run(event.context["metadata"]["ops"])

    def _run(self, ops):
        for i, op in enumerate(ops):
            if i:
                yield self.gap
            rec = {"c": self.name, "op": op, "inv": self.now.nanoseconds, "resp": None, "res": None,
                   "hit": None, "err": None}
            if op[0] in READS:
                rec["hit"] = self.sysm.is_cached(op[1])
            self.log.append(rec)
            res = yield from self.sysm.do(op)
            rec["resp"] = self.now.nanoseconds
            rec["res"] = res
            if self.watch is not None:
                self.watch(rec)
        self.done = True
        return None


def start_event(client, t_ns, ops):
    return Event(time=Instant(int(t_ns)), event_type="c16_ops", target=client,
                 context={"metadata": {"ops": list(ops)}})


def canon_policy(p, now_s):
    """Canonical form of a policy's bookkeeping (hash only; falls back to repr(vars))."""
    try:
        out = []
        d = vars(p)
        for name in sorted(d):
            v = d[name]
            if isinstance(v, _random.Random):
                v = hash(v.getstate())
            elif name == "_clock_func":
                continue
            elif name == "_insert_times":
                ttl = d.get("_ttl", 0.0)
                v = tuple((k, min(now_s - t, ttl)) for k, t in v.items())
            elif name == "_access_times":
                ranks = {t: i for i, t in enumerate(sorted(set(v.values())))}
                v = tuple((k, ranks[t]) for k, t in v.items())
            elif name == "_clock" and "_access_times" in d:
                continue
            elif isinstance(v, dict):
                v = tuple(v.items())
            elif isinstance(v, (list, set)):
                v = tuple(v)
            out.append((name, v))
        return (type(p).__name__, tuple(out))
    except Exception:
        return (type(p).__name__, repr(sorted(vars(p).items(), key=lambda kv: kv[0])))

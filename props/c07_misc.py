"""C07 registry: sketching collectors, behavioural simulation (Agent, Environment) and advertising."""
from __future__ import annotations

from props.c07_core import Drv, Event, P, R

from happysimulator.components.advertising import AdPlatform, Advertiser, AudienceTier
from happysimulator.components.behavior import (Agent, DeGrootModel, Environment, PersonalityTraits, SocialGraph,
                                                UtilityModel, VoterModel, broadcast_stimulus,
                                                influence_propagation, targeted_stimulus)
from happysimulator.components.sketching import QuantileEstimator, SketchCollector, TopKCollector
from happysimulator.sketching import CountMinSketch


class SketchCollectorsDrv(Drv):
    """The three collector entities fed with the same stream (they only absorb events)."""
    family = "sketching"
    covers = ("SketchCollector", "TopKCollector", "QuantileEstimator")
    ops = ("sample",)
    cfgs = ("zero", "odd_zero")

    def build(self, cfg):
        key = lambda e: e.context.get("metadata", {}).get("k")  # noqa: E731
        val = lambda e: float(e.context.get("metadata", {}).get("v", 0.0))  # noqa: E731
        self.sc = SketchCollector("cms", sketch=CountMinSketch(width=16, depth=2, seed=1), value_extractor=key)
        self.tk = TopKCollector("topk", k=2, value_extractor=key, seed=1)
        self.qe = QuantileEstimator("quant", value_extractor=val, compression=20.0, seed=1)
        return [self.sc, self.tk, self.qe]

    def request(self, i, op):
        ctx = {"metadata": {"k": f"k{i % 2}", "v": 0.1 * i}}
        return [self.h.ev(t, "Sample", dict(ctx)) for t in (self.sc, self.tk, self.qe)]


class _BehaviorDrv(Drv):
    family = "behavior"
    ops = ("broadcast", "targeted", "influence")
    influence = DeGrootModel

    def build(self, cfg):
        names = ["ann", "bob", "cyd"]
        model = UtilityModel(utility_fn=lambda c, ctx: 0.9 if c.action == "buy" else 0.1)
        self.agents = [Agent(name=n, traits=PersonalityTraits.big_five(openness=0.8, agreeableness=0.6),
                             decision_model=model, seed=j + 1, action_delay=cfg.L, heartbeat_interval=P(1.0))
                       for j, n in enumerate(names)]
        for a in self.agents:
            a.on_action("buy", lambda ag, choice, event: [Event(time=ag.now, event_type="Purchase",
                                                                target=self.h.out)])
            a.on_action("wait", lambda ag, choice, event: None)
        self.graph = SocialGraph.complete(names)
        self.env = Environment(name="market", agents=self.agents, social_graph=self.graph,
                               influence_model=self.influence(), seed=7)
        return [*self.agents, self.env]

    def init(self):
        t0 = self.h.now
        return [e for e in (a.schedule_first_heartbeat(t0) for a in self.agents) if e is not None]

    def request(self, i, op):
        if op == "broadcast":
            return [broadcast_stimulus(self.h.now, self.env, "Promo", choices=["buy", "wait"])]
        if op == "targeted":
            return [targeted_stimulus(self.h.now, self.env, ["ann", "bob"], "Coupon", choices=["buy", "wait"])]
        return [influence_propagation(self.h.now, self.env, topic="product_sentiment")]


class BehaviorDeGrootDrv(_BehaviorDrv):
    covers = ("Agent", "Environment", "DeGrootModel", "UtilityModel", "SocialGraph")


class BehaviorVoterDrv(_BehaviorDrv):
    covers = ("Agent", "Environment", "VoterModel")
    influence = VoterModel
    ops = ("broadcast", "influence")


class AdvertisingDrv(Drv):
    """Advertiser evaluating campaigns every 0.5 s and reporting revenue to the platform; requests change sentiment."""
    family = "advertising"
    covers = ("Advertiser", "AdPlatform", "AudienceTier")
    ops = ("sentiment_drop", "sentiment_up")
    cfgs = ("zero", "odd_zero", "dec_a", "dec_b", "dec_c", "dec_d", "dec_e")

    def build(self, cfg):
        self.platform = AdPlatform("platform")
        tiers = [AudienceTier("niche", base_monthly_sales=100, base_cpa=5.0),
                 AudienceTier("broad", base_monthly_sales=400, base_cpa=18.0)]
        self.adv = Advertiser("advertiser", product_price=50.0, production_cost=30.0, tiers=tiers,
                              platform=self.platform, evaluation_interval=P(0.5))
        return [self.platform, self.adv]

    def init(self):
        return self.adv.start_events()

    def request(self, i, op):
        s = 0.4 if op == "sentiment_drop" else 1.0
        return [self.h.ev(self.adv, "SentimentChange", {"metadata": {"sentiment": s}})]


DRIVERS = [SketchCollectorsDrv, BehaviorDeGrootDrv, BehaviorVoterDrv, AdvertisingDrv]

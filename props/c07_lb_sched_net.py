"""C07 registry: load balancer (+ health checker, every strategy), scheduling (JobScheduler, WorkStealingPool),
network (Network, NetworkLink)."""
from __future__ import annotations

from props.c07_core import Backend, Drv, Entity, P, PI, R

from happysimulator.components.load_balancer import (ConsistentHash, HealthChecker, IPHash, LeastConnections,
                                                     LeastResponseTime, LoadBalancer, PowerOfTwoChoices, Random,
                                                     RoundRobin, WeightedLeastConnections, WeightedRoundRobin)
from happysimulator.components.network import Network, NetworkLink
from happysimulator.components.scheduling import JobDefinition, JobScheduler, WorkStealingPool
from happysimulator.components.server import Server


class _LBDrv(Drv):
    family = "load_balancer"
    ops = ("request",)
    strategy = RoundRobin

    def build(self, cfg):
        self.b1 = Server("b1", concurrency=1, service_time=cfg.lat(), downstream=self.h.out)
        self.b2 = Server("b2", concurrency=1, service_time=cfg.lat(2.0), downstream=self.h.out)
        self.lb = LoadBalancer("lb", backends=[self.b1, self.b2], strategy=self.strategy())
        return [self.b1, self.b2, self.lb]

    def request(self, i, op):
        return [self.h.ev(self.lb, "request", {"metadata": {"i": i, "client_ip": f"10.0.0.{i}", "key": f"k{i}"}})]


class LoadBalancerRoundRobinDrv(_LBDrv):
    covers = ("LoadBalancer", "RoundRobin")


class LoadBalancerWeightedRRDrv(_LBDrv):
    covers = ("LoadBalancer", "WeightedRoundRobin")
    strategy = WeightedRoundRobin


class LoadBalancerRandomDrv(_LBDrv):
    covers = ("LoadBalancer", "Random")
    strategy = Random


class LoadBalancerLeastConnDrv(_LBDrv):
    covers = ("LoadBalancer", "LeastConnections")
    strategy = LeastConnections


class LoadBalancerWeightedLeastConnDrv(_LBDrv):
    covers = ("LoadBalancer", "WeightedLeastConnections")
    strategy = WeightedLeastConnections


class LoadBalancerLeastRTDrv(_LBDrv):
    covers = ("LoadBalancer", "LeastResponseTime")
    strategy = LeastResponseTime


class LoadBalancerIPHashDrv(_LBDrv):
    covers = ("LoadBalancer", "IPHash")
    strategy = IPHash


class LoadBalancerConsistentHashDrv(_LBDrv):
    covers = ("LoadBalancer", "ConsistentHash")
    strategy = staticmethod(lambda: ConsistentHash(virtual_nodes=4))


class LoadBalancerP2CDrv(_LBDrv):
    covers = ("LoadBalancer", "PowerOfTwoChoices")
    strategy = PowerOfTwoChoices


class _Flaky(Entity):
    """Backend that answers health probes after L, except while 'down' (then never: probe times out)."""

    def __init__(self, name, L):
        super().__init__(name)
        self.L, self.down = L, False

    def handle_event(self, event):
        if self.down:
            return self._hang()
        return self._ok()

    def _ok(self):
        yield self.L
        return None

    def _hang(self):
        yield 100.0
        return None


class HealthCheckerDrv(Drv):
    """Periodic probes (interval 1 s, timeout 0.75 s, thresholds 1): ops toggle one backend down / up or send traffic."""
    family = "load_balancer"
    covers = ("HealthChecker", "LoadBalancer")
    ops = ("request", "fail", "recover")

    def build(self, cfg):
        self.b1 = _Flaky("b1", cfg.L)
        self.b2 = _Flaky("b2", cfg.L)
        self.lb = LoadBalancer("lb", backends=[self.b1, self.b2])
        interval, timeout = PI(1.0, 0.75)
        if timeout >= interval:          # the checker requires timeout < interval
            interval, timeout = timeout, interval
        self.hc = HealthChecker("hc", load_balancer=self.lb, interval=interval, timeout=timeout, healthy_threshold=1,
                                unhealthy_threshold=1)
        return [self.b1, self.b2, self.lb, self.hc]

    def init(self):
        return [self.hc.start()]

    def request(self, i, op):
        if op == "fail":
            self.b1.down = True
            return None
        if op == "recover":
            self.b1.down = False
            return None
        return [self.h.ev(self.lb, "request", {"metadata": {"i": i}})]


class JobSchedulerDrv(Drv):
    """Tick 0.5 s; job 'a' (interval 1 s) and dependent job 'b'; requests add a job / disable one at the arrival instant."""
    family = "scheduling"
    covers = ("JobScheduler", "JobDefinition")
    ops = ("add_job", "toggle")

    def build(self, cfg):
        self.worker = Backend("worker", cfg.L, self.h.out)
        job_interval, tick = PI(1.0, 0.5)
        self.js = JobScheduler("jobs", tick_interval=tick)
        self.js.add_job(JobDefinition(name="a", target=self.worker, event_type="job_a", interval=job_interval, priority=1))
        self.js.add_job(JobDefinition(name="b", target=self.worker, event_type="job_b", interval=job_interval, priority=2,
                                      depends_on=["a"]))
        return [self.worker, self.js]

    def init(self):
        return [self.js.start()]

    def request(self, i, op):
        if op == "add_job":
            self.js.add_job(JobDefinition(name=f"dyn{i}", target=self.worker, event_type="job_dyn", interval=P(0.5)))
        else:
            self.a_enabled = not getattr(self, "a_enabled", True)
            if self.a_enabled:
                self.js.enable_job("a")
            else:
                self.js.disable_job("a")
        return None


class WorkStealingPoolDrv(Drv):
    contention = True
    family = "scheduling"
    covers = ("WorkStealingPool",)
    ops = ("task", "task_long")

    def build(self, cfg):
        self.p = WorkStealingPool("wsp", num_workers=2, downstream=self.h.out, default_processing_time=cfg.L)
        return [self.p, *self.p.workers]

    def request(self, i, op):
        md = {"i": i}
        if op == "task_long":
            md["processing_time"] = 3 * self.cfg.L
        return [self.h.ev(self.p, "Task", {"metadata": md})]


class _Node(Entity):
    def __init__(self, name):
        super().__init__(name)
        self.got = 0

    def handle_event(self, event):
        self.got += 1
        return None


class NetworkDrv(Drv):
    """a <-> b over a link with latency cfg.L (+ bandwidth so payload size matters), b -> c missing, partition op."""
    family = "network"
    covers = ("Network", "NetworkLink")
    ops = ("send_ab", "send_ba_big", "partition")

    def build(self, cfg):
        self.a, self.b, self.c = _Node("a"), _Node("b"), _Node("c")
        self.net = Network(name="net")
        self.net.add_bidirectional_link(self.a, self.b, NetworkLink(name="ab", latency=cfg.lat(),
                                                                    bandwidth_bps=8000.0 if cfg.L else None))
        self.net.add_link(self.a, self.c, NetworkLink(name="ac", latency=cfg.lat(2.0), jitter=cfg.lat(0.5),
                                                      packet_loss_rate=0.5))
        self.part = None
        return [self.a, self.b, self.c, self.net]

    def request(self, i, op):
        if op == "send_ab":
            return [self.net.send(self.a, self.b, "msg", {"i": i}), self.net.send(self.a, self.c, "msg", {"i": i})]
        if op == "send_ba_big":
            return [self.net.send(self.b, self.a, "msg", {"i": i, "payload_size": 500})]
        if self.part is None:
            self.part = self.net.partition([self.a], [self.b])
        else:
            self.part.heal()
            self.part = None
        return [self.net.send(self.a, self.b, "msg", {"i": i})]


class NetworkLinkDrv(Drv):
    """A bare link used as an entity in a pipeline (caller -> link -> out)."""
    family = "network"
    covers = ("NetworkLink",)
    ops = ("send", "send_big")

    def build(self, cfg):
        self.link = NetworkLink(name="link", latency=cfg.lat(), bandwidth_bps=8000.0, egress=self.h.out)
        return [self.link]

    def request(self, i, op):
        md = {"i": i, "payload_size": 250 if op == "send_big" else 0}
        return [self.h.ev(self.link, "pkt", {"metadata": md})]


DRIVERS = [LoadBalancerRoundRobinDrv, LoadBalancerWeightedRRDrv, LoadBalancerRandomDrv, LoadBalancerLeastConnDrv,
           LoadBalancerWeightedLeastConnDrv, LoadBalancerLeastRTDrv, LoadBalancerIPHashDrv,
           LoadBalancerConsistentHashDrv, LoadBalancerP2CDrv, HealthCheckerDrv, JobSchedulerDrv,
           WorkStealingPoolDrv, NetworkDrv, NetworkLinkDrv]

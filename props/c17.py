"""C17 — replication: acknowledged writes are where the mode promises, replicas converge.

Engine E2: the real ``Simulation`` + real ``Network``; every directed link's latency is a
harness-owned choice from the menu {1, 3, 9} ticks (1 tick = 1 s, so every instant is an
integer number of seconds and the library's float arithmetic is exact), so that a later
replication message can overtake an earlier one.  ``mc.choice.explore`` enumerates ALL delay
assignments up to a deviation bound (full product where the space is small) for every
enumerated input (write sequences with repeated keys x issue gaps) and every configuration
(primary-backup: mode x #backups; chain: length x CRAQ; multi-leader: #leaders x writer
placement x EVERY conflict resolver the library ships (LastWriterWins, VectorClockMerge with and
without merge_fn, CustomResolver) x write instants including exact ties between different leaders
(distinct and equal values), anti-entropy peer picks owned through ``random.choice``; with 3 leaders
and tied writes an extra anti-entropy round is fired DURING replication at every leader, so that a
version can be relayed by a third leader before the original reaches its destination).
An auxiliary driver (``resolvers``) folds all pairs/triples of concurrent versions through each
resolver in every arrival order — argument-order independence is a lemma of the convergence
clause; the deciding check stays the replica-level one.

Oracle clauses (each tied to a phrase of the statement):

* ``ack-not-applied``            "when a write is acknowledged it has been applied on every backup
                                  in SYNC mode and on at least one in SEMI_SYNC mode" / "an
                                  acknowledged write is applied at every node of the chain":
                                  at the instant the client's reply future resolved, the required
                                  replicas have applied the write (store history, or current value).
* ``ack-older-value-held``       same phrase, state reading: the required replicas applied the
                                  write but, at the ack instant, hold an OLDER write of that key
                                  (the acknowledged write is not what the replica reflects).
* ``read-uncommitted-*``         "a read never returns a value not yet committed at the tail":
                                  a read reply carries a value whose write (or a later write of the
                                  key) the tail has not applied by the reply instant.
* ``diverged``                   "once writes stop and all in-flight messages are delivered
                                  (anti-entropy having run for multi-leader), all replicas hold the
                                  same value for every key".

Where the statement is silent the check is silent: ASYNC acks, reads in primary-backup /
multi-leader, liveness (an un-acked write is only counted), divergence of multi-leader replicas
*before* anti-entropy has run (counted in the evidence, not a violation), leaders that agree on
every value but publish different version metadata (counted, not a violation), reads sent to a
non-tail node of a chain with CRAQ disabled (documented usage is "tail reads only").
"""
from __future__ import annotations

import itertools
import time

from mc.choice import Chooser, explore
from mc.evidence import Run, digest
from mc.harness import (Duration, Entity, Event, Instant, LatencyDistribution, Simulation, owned_random,
                        pmap, rotate, run_guarded)

from happysimulator.components.datastore.kv_store import KVStore  # noqa: E402
from happysimulator.components.datastore.replicated_store import (  # noqa: E402
    ConsistencyLevel, ReplicatedStore)
from happysimulator.components.network.link import NetworkLink  # noqa: E402
from happysimulator.components.network.network import Network  # noqa: E402
from happysimulator.components.replication.chain_replication import build_chain  # noqa: E402
from happysimulator.components.replication.conflict_resolver import (  # noqa: E402
    CustomResolver, LastWriterWins, VectorClockMerge, VersionedValue)
from happysimulator.core.logical_clocks import HLCTimestamp  # noqa: E402
from happysimulator.components.replication.multi_leader import LeaderNode  # noqa: E402
from happysimulator.components.replication.primary_backup import (  # noqa: E402
    BackupNode, PrimaryNode, ReplicationMode)
from happysimulator.core.sim_future import SimFuture  # noqa: E402

PID = "C17"

NS = 1_000_000_000          # one tick = 1 s: integer-second floats are exact end to end
MENU = (1.0, 3.0, 9.0)      # per-message link delay menu, in ticks
DMAX = 9
# store profiles: (write latency W, read latency R) in ticks
PROFILES = {"instant": (0, 0), "slow": (2, 1)}
MAX_EVENTS = 6000


def T(ticks):
    return Instant.from_seconds(float(ticks))


# ---------------------------------------------------------------------------
# harness-side seams (all through public surfaces of the library)
# ---------------------------------------------------------------------------
class Lat(LatencyDistribution):
    """Link latency: every sample is a chooser decision from MENU, logged with the message type."""

    def __init__(self, menu, world, tag):
        super().__init__(menu[0])
        self.menu = menu
        self.w = world
        self.tag = tag
        self.cur = None  # event type of the message being transmitted (set by TagLink)

    def get_latency(self, current_time):
        w = self.w
        t = current_time.nanoseconds // NS
        if len(self.menu) == 1 or w.fixed_delay(self.cur, t):
            d = self.menu[0]
        else:
            d = self.menu[w.chooser.choose(len(self.menu), self.tag)]
        w.msgs.append((self.tag, self.cur, t, int(d)))
        return Duration.from_seconds(d)

    def __deepcopy__(self, memo):
        return Lat(self.menu, self.w, self.tag)


class TagLink(NetworkLink):
    """The real NetworkLink; only tells its latency object which message type is in transit."""

    def handle_event(self, event):
        self.latency.cur = event.event_type
        return (yield from NetworkLink.handle_event(self, event))


class RecStore(KVStore):
    """The real KVStore; records every completed application (tick, key, value)."""

    def __init__(self, name, world, **kw):
        super().__init__(name, **kw)
        self.w = world
        self.hist = []

    def put(self, key, value):
        yield from KVStore.put(self, key, value)
        self.hist.append((self.w.tick(), key, value))

    def put_sync(self, key, value):
        KVStore.put_sync(self, key, value)
        self.hist.append((self.w.tick(), key, value))


class RecFuture(SimFuture):
    """Reply future that notes the instant it was resolved (``resolve`` is the public API)."""

    def __init__(self, world):
        super().__init__()
        self.w = world
        self.at = None

    def resolve(self, value=None):
        if self.at is None:
            self.at = self.w.tick()
        return SimFuture.resolve(self, value)


class Client(Entity):
    """Harness client: issues one Write per 'Go' event and parks on the reply future; when it is
    resumed (the instant the future resolved) it snapshots every replica."""

    def __init__(self, name, world):
        super().__init__(name)
        self.w = world

    def handle_event(self, event):
        md = event.context["metadata"]
        w = self.w
        fut = RecFuture(w)
        ev = Event(time=self.now, event_type="Write", target=md["node"],
                   context={"metadata": {"key": md["key"], "value": md["value"], "reply_future": fut}})
        w.issued.append((w.tick(), md["node"].name, md["key"], md["value"]))
        yield 0.0, [ev]
        res = yield fut
        snap = {n: s.get_sync(md["key"]) for n, s in w.stores.items()}
        w.acks.append({"t": w.tick(), "value": md["value"], "key": md["key"], "reply": res, "snap": snap,
                       "node": md["node"].name})
        return None


class Prober(Entity):
    """Harness reader: at every tick while a write is unacknowledged or a message is in flight (plus the
    store latencies) it sends one Read per (node, key); hard stop at the worst-case horizon."""

    def __init__(self, name, world, nodes, keys, nwrites, last_issue, slack, hard_stop):
        super().__init__(name)
        self.w, self.nodes, self.keys = world, nodes, keys
        self.nwrites, self.last_issue, self.slack, self.hard_stop = nwrites, last_issue, slack, hard_stop

    def handle_event(self, event):
        w = self.w
        t = w.tick()
        evs = []
        for n in self.nodes:
            for k in self.keys:
                f = RecFuture(w)
                w.reads.append((t, n.name, k, f))
                evs.append(Event(time=self.now, event_type="Read", target=n,
                                 context={"metadata": {"key": k, "reply_future": f}}))
        busy = max([self.last_issue] + [ts + d for (_tag, _et, ts, d) in w.msgs]) + self.slack
        if t < self.hard_stop and (t <= busy or len(w.acks) < self.nwrites):
            evs.append(Event(time=T(t + 1), event_type="Probe", target=self))
        return evs


class World:
    """Common bookkeeping of one execution."""

    def __init__(self, chooser):
        self.chooser = chooser
        self.msgs = []      # (link, type, send tick, delay)
        self.issued = []    # (tick, node, key, value)
        self.acks = []      # ack observations
        self.stores = {}    # replica name -> RecStore
        self.sim = None
        self.clk = None     # a harness entity: its public ``now`` is the simulation clock
        self.fixed_types = ()
        self.fixed_after = None
        self.links = []

    def tick(self):
        return self.clk.now.nanoseconds // NS if self.clk is not None else 0

    def fixed_delay(self, etype, t):
        if etype in self.fixed_types:
            return self.fixed_after is None or t >= self.fixed_after
        return False

    def link(self, net, a, b, menu=MENU):
        tag = f"{a.name}>{b.name}"
        net.add_link(a, b, TagLink(name=tag, latency=Lat(menu, self, tag)))
        self.links.append(tag)

    def store(self, name, prof):
        W, R = PROFILES[prof]
        s = RecStore(f"{name}_store", self, write_latency=float(W), read_latency=float(R))
        self.stores[name] = s
        return s

    # -- derived facts -----------------------------------------------------
    def reordered(self):
        """Some link delivered two messages in the opposite order of their sending."""
        per = {}
        for (tag, _et, t, d) in self.msgs:
            per.setdefault(tag, []).append(t + d)
        for arr in per.values():
            for i in range(len(arr)):
                for j in range(i + 1, len(arr)):
                    if arr[i] > arr[j]:
                        return True
        return False

    def applied_by(self, name, key, value, t):
        """Replica ``name`` has applied (key, value) at or before tick t (history; falls back to the
        current value when the history seam saw nothing)."""
        s = self.stores[name]
        for (ht, k, v) in s.hist:
            if k == key and v == value and ht <= t:
                return True
        return False

    def hist_reliable(self):
        """The history seam is trusted only if it explains every value currently stored."""
        for s in self.stores.values():
            for k in s.keys():
                v = s.get_sync(k)
                if not any(hk == k and hv == v for (_t, hk, hv) in s.hist):
                    return False
        return True

    def final(self, keys):
        return {n: {k: s.get_sync(k) for k in keys} for n, s in self.stores.items()}

    def trace(self):
        out = []
        for (t, n, k, v) in self.issued:
            out.append((t, 0, f"t={t:>3} client -> {n}: Write {k}={v}"))
        for (tag, et, t, d) in self.msgs:
            out.append((t, 1, f"t={t:>3} send {et} on {tag} delay={d} (arrives t={t + d})"))
        for n, s in self.stores.items():
            for (t, k, v) in s.hist:
                out.append((t, 2, f"t={t:>3} {n} applies {k}={v}"))
        for a in self.acks:
            out.append((a["t"], 3, f"t={a['t']:>3} client: write {a['key']}={a['value']} acknowledged "
                                   f"reply={a['reply']} replicas now hold {a['snap']}"))
        return [line for (_t, _o, line) in sorted(out, key=lambda x: (x[0], x[1]))]


def shape(w):
    return "reordered" if w.reordered() else "in-order"


def rank_of(w):
    """Order of the writes of one coordinator: the sequence number it reported in the reply,
    falling back to issue order (values are 1..n in issue order)."""
    r = {}
    for a in w.acks:
        rep = a["reply"]
        if isinstance(rep, dict) and isinstance(rep.get("seq"), int):
            r[a["value"]] = rep["seq"]
    vals = [v for (_t, _n, _k, v) in w.issued]
    if len(r) != len(vals) or len(set(r.values())) != len(vals):
        r = {v: v for v in vals}
    return r


def overlap(w):
    """A write of a key already written was issued while a replication message was still in flight."""
    seen = set()
    for (t, _node, k, _v) in sorted(w.issued):
        if k in seen and any(ts <= t < ts + d for (_tag, _et, ts, d) in w.msgs):
            return True
        seen.add(k)
    return False


# ---------------------------------------------------------------------------
# scheme 1: primary-backup
# ---------------------------------------------------------------------------
def run_pb(chooser, cfg, inp):
    """cfg: {mode, nb, prof, acklinks}; inp: [(tick, key, value)]."""
    w = World(chooser)
    net = Network(name="net")
    mode = ReplicationMode[cfg["mode"]]
    bl = []
    prim = PrimaryNode("P", store=w.store("P", cfg["prof"]), backups=bl, network=net, mode=mode)
    backs = [BackupNode(f"B{i}", store=w.store(f"B{i}", cfg["prof"]), network=net, primary=prim)
             for i in range(cfg["nb"])]
    bl.extend(backs)
    if [e.name for e in prim.downstream_entities()] != [b.name for b in backs]:
        # the constructor copied the list: wire the way the library's own example does
        prim._backups = backs
        prim._backup_lag = {b.name: 0 for b in backs}
        if [e.name for e in prim.downstream_entities()] != [b.name for b in backs]:
            raise RuntimeError("harness cannot attach backups to PrimaryNode")
    for b in backs:
        w.link(net, prim, b)
        # ReplicationAck only feeds the primary's lag statistics (the ack future is resolved by the
        # backup directly); its delay is explored in the small 'pb-acklinks' driver only
        w.link(net, b, prim, MENU if cfg.get("acklinks") else (1.0,))
    cl = w.clk = Client("client", w)
    sim = w.sim = Simulation(entities=[prim, *backs, net, *w.stores.values(), cl])
    for (t, k, v) in inp:
        sim.schedule(Event(time=T(t), event_type="Go", target=cl,
                           context={"metadata": {"node": prim, "key": k, "value": v}}))
    r = run_guarded(sim, max_events=MAX_EVENTS)
    return w, r, oracle_pb(w, r, cfg, inp)


def oracle_pb(w, r, cfg, inp):
    out = []
    mode = cfg["mode"]
    sh = None
    rank = rank_of(w)
    backs = [n for n in w.stores if n != "P"]
    reliable = w.hist_reliable()
    if mode in ("SYNC", "SEMI_SYNC"):
        for a in w.acks:
            key, val, t = a["key"], a["value"], a["t"]
            applied, holds = [], []
            for b in backs:
                cur = a["snap"][b]
                ap = (w.applied_by(b, key, val, t) if reliable else False) or cur == val
                ho = cur is not None and cur in rank and rank[cur] >= rank[val]
                applied.append(ap or ho)
                holds.append(ho)
            need = len(backs) if mode == "SYNC" else 1
            if sum(applied) < need:
                sh = sh or shape(w)
                out.append((f"PrimaryBackup/{mode}/ack-not-applied/{sh}",
                            f"{mode}: write {key}={val} acknowledged at t={t} but applied on only "
                            f"{sum(applied)}/{len(backs)} backups (need {need}); backups hold {a['snap']}"))
            elif sum(holds) < need:
                sh = sh or shape(w)
                out.append((f"PrimaryBackup/{mode}/ack-older-value-held/{sh}",
                            f"{mode}: write {key}={val} acknowledged at t={t} while only {sum(holds)}/{len(backs)} "
                            f"backups hold it or a later write (need {need}): an earlier write of {key} that "
                            f"arrived late overwrote it; replicas hold {a['snap']}"))
    if r["outcome"] == "done":
        keys = sorted({k for (_t, k, _v) in inp})
        fin = w.final(keys)
        for k in keys:
            vals = {n: fin[n][k] for n in fin}
            if len(set(vals.values())) > 1:
                sh = sh or shape(w)
                out.append((f"PrimaryBackup/{mode}/diverged/{sh}",
                            f"{mode}: at quiescence (no event left) replicas differ on key {k}: {vals}"))
                break
    return out


# ---------------------------------------------------------------------------
# scheme 2: chain replication (+CRAQ)
# ---------------------------------------------------------------------------
def chain_horizon(cfg, inp):
    W, R = PROFILES[cfg["prof"]]
    last = max(t for (t, _k, _v) in inp)
    return last + cfg["len"] * (W + DMAX) + DMAX + W + R + 1


def run_chain(chooser, cfg, inp):
    """cfg: {len, craq, prof}; inp: [(tick, key, value)].  Reads (CRAQ on): at every tick while anything
    is in flight, for every written key, at every non-tail node (a read served by the tail itself returns
    what the tail holds; with CRAQ off the documented usage is tail reads only, so no read is issued)."""
    w = World(chooser)
    w.fixed_types = ("Read",)   # a forwarded read is served by the tail itself whatever its delay
    net = Network(name="net")
    names = ["H", "M", "T"] if cfg["len"] == 3 else ["H", "T"]
    nodes = build_chain(names, net, lambda nm: w.store(nm[: -len("_store")], cfg["prof"]),
                        craq_enabled=cfg["craq"])
    tail = nodes[-1]
    for i in range(len(nodes) - 1):
        w.link(net, nodes[i], nodes[i + 1])          # Propagate (+ forwarded reads to the tail)
    for i in range(len(nodes) - 1):
        w.link(net, tail, nodes[i])                  # WriteAck / CommitNotify
    for i in range(len(nodes) - 2):
        w.link(net, nodes[i], tail)                  # forwarded reads from non-adjacent nodes
    cl = w.clk = Client("client", w)
    keys = sorted({k for (_t, k, _v) in inp})
    w.reads = []
    extra = []
    if cfg["craq"]:
        extra = [Prober("prober", w, nodes[:-1], keys, len(inp), max(t for (t, _k, _v) in inp),
                        sum(PROFILES[cfg["prof"]]) + 1, chain_horizon(cfg, inp))]
    sim = w.sim = Simulation(entities=[*nodes, net, *w.stores.values(), cl, *extra])
    for (t, k, v) in inp:
        sim.schedule(Event(time=T(t), event_type="Go", target=cl,
                           context={"metadata": {"node": nodes[0], "key": k, "value": v}}))
    for pr in extra:
        sim.schedule(Event(time=T(0), event_type="Probe", target=pr))
    r = run_guarded(sim, max_events=4 * MAX_EVENTS)
    return w, r, oracle_chain(w, r, cfg, inp, names)


def oracle_chain(w, r, cfg, inp, names):
    out = []
    mode = "craq" if cfg["craq"] else "plain"
    rank = rank_of(w)
    sh = None
    reliable = w.hist_reliable()
    key_of = {v: k for (_t, k, v) in inp}
    for a in w.acks:
        key, val, t = a["key"], a["value"], a["t"]
        if not (isinstance(a["reply"], dict) and a["reply"].get("status") == "ok"):
            continue
        missing, older = [], []
        for n in names:
            cur = a["snap"][n]
            ho = cur is not None and cur in rank and rank[cur] >= rank[val]
            ap = ho or cur == val or (reliable and w.applied_by(n, key, val, t))
            if not ap:
                missing.append(n)
            elif not ho:
                older.append(n)
        if missing:
            sh = sh or shape(w)
            out.append((f"Chain/{mode}/ack-not-applied/{sh}",
                        f"write {key}={val} acknowledged at t={t} but not applied at node(s) {missing}; "
                        f"nodes hold {a['snap']}"))
        elif older:
            sh = sh or shape(w)
            out.append((f"Chain/{mode}/ack-older-value-held/{sh}",
                        f"write {key}={val} acknowledged at t={t} while node(s) {older} hold an earlier write of "
                        f"{key} that arrived late and overwrote it; nodes hold {a['snap']}"))
    # reads
    tail = names[-1]
    if reliable:
        seen = set()
        for (t0, n, k, f) in w.reads:
            if not f.is_resolved or n == tail:
                continue
            rep = f.value
            v = rep.get("value") if isinstance(rep, dict) else None
            if v is None:
                continue
            t1 = f.at
            ok = False
            for (ht, hk, hv) in w.stores[tail].hist:
                if hk == k and ht <= t1 and (hv == v or (hv in rank and v in rank and rank[hv] >= rank[v])):
                    ok = True
                    break
            if ok:
                continue
            if key_of.get(v) != k:
                sub = "unwritten-value"
            else:
                at_n = [ht for (ht, hk, hv) in w.stores[n].hist if hk == k and hv == v]
                sub = "applied-during-read" if at_n and min(at_n) >= t0 else "marked-clean-early"
            sh = sh or shape(w)
            fp = f"Chain/{mode}/read-uncommitted-{sub}/{sh}"
            if fp in seen:
                continue
            seen.add(fp)
            out.append((fp, f"read of {k} issued at node {n} at t={t0} replied at t={t1} with value {v}, which the "
                            f"tail has not applied by then (tail history: {w.stores[tail].hist})"))
    if r["outcome"] == "done":
        keys = sorted({k for (_t, k, _v) in inp})
        fin = w.final(keys)
        for k in keys:
            vals = {n: fin[n][k] for n in fin}
            if len(set(vals.values())) > 1:
                sh = sh or shape(w)
                out.append((f"Chain/{mode}/diverged/{sh}",
                            f"at quiescence (no event left) chain nodes differ on key {k}: {vals}"))
                break
    return out


# ---------------------------------------------------------------------------
# scheme 3: multi-leader with anti-entropy
# ---------------------------------------------------------------------------
AE_GAP = 40          # ticks between two harness-fired anti-entropy rounds (> any exchange)
AE_TYPES = ("AntiEntropyRequest", "AntiEntropyResponse")


def _highest_value(versions):
    """User-supplied policy for the resolvers that take one: the version with the highest value wins, ties by
    writer id.  Values grow in issue order, so this is a total order that extends causality and is symmetric in
    its arguments — the library, not the policy, is responsible for convergence."""
    return max(versions, key=lambda v: (v.value, v.writer_id))


# every conflict resolver the library ships, in every way it can be constructed
RESOLVERS = {
    "lww": lambda: LastWriterWins(),
    "vcmerge": lambda: VectorClockMerge(),                                            # timestamp fallback
    "vcmerge-fn": lambda: VectorClockMerge(merge_fn=lambda key, a, b: _highest_value([a, b])),
    "custom": lambda: CustomResolver(lambda key, versions: _highest_value(versions)),
}


def ml_quiet(cfg, inp):
    W, _R = PROFILES[cfg["prof"]]
    last = max(t for (t, _l, _k, _v) in inp["writes"])
    e = inp.get("early")
    if e:
        last = max(last, e[1] + 2 * DMAX + 8 * W)
    return last + 2 * W + DMAX + 8 * W + 5


def run_ml(chooser, cfg, inp):
    """cfg: {n, prof, resolver}; inp: {writes: [(tick, leader idx, key, value)], early: None|(leader, tick)}.
    After every write message is delivered the harness fires AntiEntropy at each leader in turn
    (2 rounds for 3 leaders), AE_GAP ticks apart; the peer is ``random.choice`` = chooser."""
    w = World(chooser)
    w.fixed_types = AE_TYPES
    tq = w.fixed_after = ml_quiet(cfg, inp)
    net = Network(name="net")
    n = cfg["n"]
    mk = RESOLVERS[cfg["resolver"]]
    leaders = [LeaderNode(f"L{i}", store=w.store(f"L{i}", cfg["prof"]), network=net, conflict_resolver=mk(),
                          anti_entropy_interval=1.0e6) for i in range(n)]
    for ld in leaders:
        ld.add_peers([p for p in leaders if p is not ld])
    for a in leaders:
        for b in leaders:
            if a is not b:
                w.link(net, a, b)
    cl = w.clk = Client("client", w)
    sim = w.sim = Simulation(entities=[*leaders, net, *w.stores.values(), cl])
    for (t, li, k, v) in inp["writes"]:
        sim.schedule(Event(time=T(t), event_type="Go", target=cl,
                           context={"metadata": {"node": leaders[li], "key": k, "value": v}}))
    if inp.get("early"):
        li, t = inp["early"]
        sim.schedule(Event(time=T(t), event_type="AntiEntropy", target=leaders[li]))
    rounds = 1 if n == 2 else 2
    w.ae = []
    t = tq
    for _ in range(rounds):
        for ld in leaders:
            w.ae.append((t, ld.name))
            sim.schedule(Event(time=T(t), event_type="AntiEntropy", target=ld))
            t += AE_GAP
    w.pre_ae = None
    keys = sorted({k for (_t, _l, k, _v) in inp["writes"]})

    w.pre_conflicts = 0

    def on_event(ev):
        if w.pre_ae is None and ev.time.nanoseconds // NS >= tq:
            w.pre_ae = w.final(keys)
            # conflicts detected while replicating (anti-entropy also counts identical versions as conflicts)
            w.pre_conflicts = sum(ld.stats.conflicts_detected for ld in leaders)

    with owned_random(chooser):
        r = run_guarded(sim, max_events=MAX_EVENTS, on_event=on_event)
    w.leaders = leaders
    # observation only (the statement promises equal VALUES): do leaders that agree on every value also agree on the
    # version metadata they publish?
    w.meta_differs = False
    try:
        for k in keys:
            metas = set()
            for ld in leaders:
                vv = ld.versions.get(k)
                metas.add(None if vv is None else (repr(vv.value), repr(vv.timestamp), vv.writer_id,
                                                   tuple(sorted((vv.vector_clock or {}).items()))))
            vals = {s_.get_sync(k) for s_ in w.stores.values()}
            if len(vals) == 1 and len(metas) > 1:
                w.meta_differs = True
    except Exception:  # noqa: BLE001  (public surface changed: the counter is simply not fed)
        pass
    return w, r, oracle_ml(w, r, cfg, inp, keys)


def oracle_ml(w, r, cfg, inp, keys):
    out = []
    if r["outcome"] != "done":
        return out
    n = cfg["n"]
    tq = w.fixed_after
    # premise "anti-entropy having run": the exchanges fired after the writes were delivered must have
    # let every leader learn from every other one (push-pull information flow, in firing order)
    know = {f"L{i}": {f"L{i}"} for i in range(n)}
    for (tag, et, t, _d) in w.msgs:
        if et == "AntiEntropyRequest" and t >= tq:
            a, b = tag.split(">")
            u = know[a] | know[b]
            know[a] = set(u)
            know[b] = set(u)
    w.premise = all(len(s) == n for s in know.values())
    if not w.premise:
        return out
    fin = w.final(keys)
    for k in keys:
        vals = {nm: fin[nm][k] for nm in fin}
        if len(set(vals.values())) > 1:
            out.append((f"MultiLeader/{cfg['resolver']}/diverged-after-anti-entropy/{shape(w)}",
                        f"after all messages were delivered and anti-entropy ran between every pair "
                        f"(exchanges: {[(t, tag) for (tag, et, t, _d) in w.msgs if et == 'AntiEntropyRequest' and t >= tq]}) "
                        f"leaders differ on key {k}: {vals}"))
            break
    return out


# ---------------------------------------------------------------------------
# scheme 4: ReplicatedStore (no network: overlapping coordinator processes)
# ---------------------------------------------------------------------------
class PutClient(Entity):
    def __init__(self, name, world, rs):
        super().__init__(name)
        self.w = world
        self.rs = rs

    def handle_event(self, event):
        md = event.context["metadata"]
        self.w.issued.append((self.w.tick(), self.rs.name, md["key"], md["value"]))
        ok = yield from self.rs.put(md["key"], md["value"])
        self.w.acks.append({"t": self.w.tick(), "key": md["key"], "value": md["value"], "reply": ok,
                            "snap": {n: s.get_sync(md["key"]) for n, s in self.w.stores.items()},
                            "node": self.rs.name})
        return None


def run_rs(cfg, inp):
    """cfg: {lats: [write latency per replica], level}; inp: [(tick, key, value)]."""
    w = World(None)
    reps = []
    for i, wl in enumerate(cfg["lats"]):
        s = RecStore(f"R{i}", w, write_latency=float(wl), read_latency=0.0)
        w.stores[f"R{i}"] = s
        reps.append(s)
    lvl = ConsistencyLevel[cfg["level"]]
    rs = ReplicatedStore("rs", replicas=reps, read_consistency=lvl, write_consistency=lvl)
    cl = w.clk = PutClient("client", w, rs)
    sim = w.sim = Simulation(entities=[rs, *reps, cl])
    for (t, k, v) in inp:
        sim.schedule(Event(time=T(t), event_type="Go", target=cl, context={"metadata": {"key": k, "value": v}}))
    r = run_guarded(sim, max_events=MAX_EVENTS)
    out = []
    if r["outcome"] == "done":
        keys = sorted({k for (_t, k, _v) in inp})
        fin = w.final(keys)
        for k in keys:
            vals = {n: fin[n][k] for n in fin}
            if len(set(vals.values())) > 1:
                out.append((f"ReplicatedStore/{cfg['level']}/diverged/overlapping-puts",
                            f"after all puts returned replicas differ on key {k}: {vals}"))
                break
    return w, r, out


# ---------------------------------------------------------------------------
# input alphabets
# ---------------------------------------------------------------------------
def key_patterns(n):
    """All key sequences of length n up to renaming (restricted growth strings)."""
    out = []

    def rec(pref, mx):
        if len(pref) == n:
            out.append(tuple("abc"[i] for i in pref))
            return
        for i in range(mx + 2):
            rec(pref + [i], max(mx, i))

    rec([0], 0)
    return out


def write_inputs(sizes, gaps, repeated_only=False):
    """[(tick, key, value)] for every size, key pattern and gap vector; value = 1..n in issue order."""
    res = []
    for n in sizes:
        for pat in key_patterns(n):
            if repeated_only and len(set(pat)) == n and n > 1:
                continue
            for gv in itertools.product(gaps, repeat=n - 1):
                t, inp = 0, []
                for i in range(n):
                    if i:
                        t += gv[i - 1]
                    inp.append((t, pat[i], i + 1))
                res.append(inp)
    return res


def leader_patterns(n_writes, n_leaders):
    """Writer placements up to renaming of leaders, with at most n_leaders distinct leaders."""
    out = []

    def rec(pref, mx):
        if len(pref) == n_writes:
            out.append(tuple(pref))
            return
        for i in range(min(mx + 2, n_leaders)):
            rec(pref + [i], max(mx, i))

    rec([0], 0)
    return out


def ml_inputs(sizes, gaps, n_leaders, early=False):
    """{writes: [(tick, leader, key, value)], early}: every writer placement up to renaming x key pattern with a
    repeated key x gap vector (gap 0 = the same instant); values are 1..n in issue order, plus — whenever two
    different leaders write one key at exactly the same instant — the variant where those two write EQUAL values."""
    res = []
    for n in sizes:
        for lp in leader_patterns(n, n_leaders):
            for pat in key_patterns(n):
                if n > 1 and len(set(pat)) == n:
                    continue  # no key written twice: nothing to reconcile
                for gv in itertools.product(gaps, repeat=n - 1):
                    t, ws = 0, []
                    for i in range(n):
                        if i:
                            t += gv[i - 1]
                        ws.append((t, lp[i], pat[i], i + 1))
                    variants = [ws]
                    for i in range(n):
                        for j in range(i + 1, n):
                            if ws[i][0] == ws[j][0] and ws[i][2] == ws[j][2] and ws[i][1] != ws[j][1]:
                                eq = list(ws)
                                eq[j] = (ws[j][0], ws[j][1], ws[j][2], ws[i][3])
                                if eq not in variants:
                                    variants.append(eq)
                    for v in variants:
                        res.append({"writes": v, "early": None})
                        if early and n >= 2:
                            for li in range(n_leaders):
                                res.append({"writes": v, "early": (li, v[1][0] + 1)})
    return res


def tied_between_leaders(inp):
    """Two different leaders write one key at exactly the same instant."""
    ws = inp["writes"]
    return any(ws[i][0] == ws[j][0] and ws[i][2] == ws[j][2] and ws[i][1] != ws[j][1]
               for i in range(len(ws)) for j in range(i + 1, len(ws)))


def with_early_rounds(inps, n_leaders, offsets):
    """For every input with a write-instant tie between different leaders: one extra anti-entropy round fired
    DURING replication, at every leader x every offset (ticks after the last write); its peer pick and its message
    delays are explored like everything else."""
    out = []
    for x in inps:
        if x["early"] is None and tied_between_leaders(x):
            last = max(t for (t, _l, _k, _v) in x["writes"])
            for li in range(n_leaders):
                for off in offsets:
                    out.append({"writes": x["writes"], "early": (li, last + off)})
    return out


# ---------------------------------------------------------------------------
# exploration of one sub-space (one configuration x one input): all delay assignments
# ---------------------------------------------------------------------------
RUNNERS = {"pb": run_pb, "chain": run_chain, "ml": run_ml}


def execute(scheme, cfg, inp, chooser):
    return RUNNERS[scheme](chooser, cfg, inp)


def _job(job):
    (drv, scheme, cfg, inp, bound) = job
    st = {"drv": drv, "exec": 0, "trans": 0, "nontriv": 0, "outcomes": set(), "viol": {}, "samples": [],
          "horizon": 0, "unacked": 0, "pre_ae_div": 0, "premise_unmet": 0, "meta_diff": 0, "complete": True}

    def run_fn(ch):
        return execute(scheme, cfg, inp, ch)

    cpu0 = time.process_time()
    first = True
    last = None
    for choices, points, (w, r, viol) in explore(run_fn, bound=bound):
        st["exec"] += 1
        st["trans"] += r["events"]
        if r["outcome"] != "done":
            st["horizon"] += 1
        nwrites = len(inp["writes"]) if scheme == "ml" else len(inp)
        if len(w.acks) < nwrites:
            st["unacked"] += 1
        keys = sorted({x[-2] for x in (inp["writes"] if scheme == "ml" else inp)})
        obs = (w.final(keys), [(a["t"], a["value"], sorted(a["snap"].items())) for a in w.acks])
        if scheme == "chain":
            obs = obs + ([(t0, n, k, f.at, f.value.get("value") if f.is_resolved else "-")
                          for (t0, n, k, f) in w.reads if n != "T"],)
        if scheme == "ml":
            if w.pre_ae is not None and any(len({w.pre_ae[nm][k] for nm in w.pre_ae}) > 1 for k in keys):
                st["pre_ae_div"] += 1
            if r["outcome"] == "done" and not getattr(w, "premise", True):
                st["premise_unmet"] += 1
            conflict = w.pre_conflicts > 0
            if r["outcome"] == "done" and w.meta_differs:
                st["meta_diff"] += 1
        else:
            conflict = False
        dg = digest(obs)
        st["outcomes"].add(dg)
        last = (list(choices), dg, keys)
        if conflict or w.reordered() or overlap(w):
            st["nontriv"] += 1
        for fp, desc in viol:
            if fp not in st["viol"]:
                st["viol"][fp] = [desc, {"driver": drv, "scheme": scheme, "cfg": cfg, "input": inp,
                                         "choices": list(choices), "bound": bound}, 0]
            st["viol"][fp][2] += 1
        if first:
            first = False
            st["samples"].append({"cfg": cfg, "input": inp, "choices": list(choices),
                                  "choice_points": len([p for p in points if p[0] > 1]),
                                  "final": w.final(keys), "events": r["events"]})
    # determinism self-check: the last schedule, re-executed without the explorer, must be observed identically
    if last is not None:
        w, r, _v = execute(scheme, cfg, inp, Chooser(prefix=last[0]))
        obs = (w.final(last[2]), [(a["t"], a["value"], sorted(a["snap"].items())) for a in w.acks])
        if scheme == "chain":
            obs = obs + ([(t0, n, k, f.at, f.value.get("value") if f.is_resolved else "-")
                          for (t0, n, k, f) in w.reads if n != "T"],)
        if digest(obs) != last[1]:
            raise RuntimeError(f"C17 harness: schedule {last[0]} of {cfg} {inp} is not reproducible")
    st["outcomes"] = len(st["outcomes"])
    st["cpu"] = time.process_time() - cpu0
    return st


def _job_rs(job):
    (cfgs, inps) = job
    st = {"exec": 0, "trans": 0, "nontriv": 0, "outcomes": set(), "viol": {}, "samples": []}
    for cfg in cfgs:
        for inp in inps:
            w, r, viol = run_rs(cfg, inp)
            st["exec"] += 1
            st["trans"] += r["events"]
            keys = sorted({k for (_t, k, _v) in inp})
            st["outcomes"].add(digest((w.final(keys), [(a["t"], a["value"]) for a in w.acks])))
            # overlap: a put started before an earlier put of the same key returned
            ov = False
            for (t, _n, k, v) in w.issued:
                for a in w.acks:
                    if a["key"] == k and a["value"] != v and a["value"] < v and a["t"] > t:
                        ov = True
            if ov:
                st["nontriv"] += 1
            for fp, desc in viol:
                st["viol"].setdefault(fp, [desc, {"driver": "rstore", "scheme": "rs", "cfg": cfg, "input": inp}, 0])
                st["viol"][fp][2] += 1
            if st["exec"] == 1:
                st["samples"].append({"cfg": cfg, "input": inp, "final": w.final(keys)})
    st["outcomes"] = len(st["outcomes"])
    return st


# ---------------------------------------------------------------------------
# drivers
# ---------------------------------------------------------------------------
def n_assignments(points, bound, alts=2):
    """Number of delay assignments explored for ``points`` 3-way choice points under a deviation bound."""
    import math
    if bound is None:
        return (alts + 1) ** points
    return sum(math.comb(points, k) * alts ** k for k in range(0, min(bound, points) + 1))


def plan(tier):
    """Returns {driver: (bounds dict, [jobs])}; job = (driver, scheme, cfg, input, deviation bound|None)."""
    q = tier == "quick"
    B = 3 if q else 5
    G = (0, 1, 3)
    plans = {}

    def bound_for(points, full_cap, b):
        return None if 3 ** points <= full_cap else b

    # -- primary-backup: choice points = backups x writes <= 6 ----------------
    jobs = []
    gaps = G if q else (0, 1, 3, 7)
    for mode in ("SYNC", "SEMI_SYNC", "ASYNC"):
        for nb in (1, 2):
            for prof in ("instant", "slow"):
                cfg = {"mode": mode, "nb": nb, "prof": prof, "acklinks": False}
                for inp in write_inputs((1, 2, 3), gaps, repeated_only=q):
                    jobs.append(("pb", "pb", cfg, inp, bound_for(nb * len(inp), 243 if q else 729, B)))
    plans["pb"] = ({"modes": ["SYNC", "SEMI_SYNC", "ASYNC"], "backups": [1, 2], "store_profiles(W,R ticks)": PROFILES,
                    "writes": "<=3, all key patterns up to renaming" + (" that repeat a key" if q else ""),
                    "issue_gaps_ticks": list(gaps), "delay_menu_ticks": list(MENU),
                    "delay_assignments": (f"full product; deviation bound {B} for 2 backups x 3 writes (6 points)" if q
                                          else "full product"),
                    "ack_link_delay": "fixed 1 tick (see pb-acklinks)"}, jobs)

    jobs = []
    for mode in ("SYNC", "SEMI_SYNC", "ASYNC"):
        for nb in (1, 2):
            cfg = {"mode": mode, "nb": nb, "prof": "slow", "acklinks": True}
            for inp in write_inputs((2,), (0, 1, 3), repeated_only=True):
                jobs.append(("pb-acklinks", "pb", cfg, inp, None if nb == 1 else B))
    plans["pb-acklinks"] = ({"modes": 3, "backups": [1, 2], "writes": "2 on one key", "issue_gaps_ticks": [0, 1, 3],
                             "delay_assignments": f"Replicate AND ReplicationAck links from menu; full product for 1 "
                                                  f"backup, deviation bound {B} for 2"}, jobs)

    # -- chain: choice points per write = 2/3 (length 2 plain/CRAQ), 3/5 (length 3) ---------
    jobs = []
    for ln in (2, 3):
        for craq in (True, False):
            for prof in ("instant", "slow"):
                cfg = {"len": ln, "craq": craq, "prof": prof}
                per = (3 if craq else 2) if ln == 2 else (5 if craq else 3)
                if q:
                    inps = write_inputs((1, 2, 3), G, repeated_only=True) if ln == 2 else \
                        write_inputs((1, 2), G, repeated_only=True) + \
                        [[(0, "a", 1), (1, "a", 2), (2, "a", 3)], [(0, "a", 1), (1, "b", 2), (4, "a", 3)]]
                elif ln == 2:
                    inps = write_inputs((1, 2, 3), G)
                else:
                    inps = write_inputs((1, 2), G) + write_inputs((3,), (1, 3), repeated_only=True)
                for inp in inps:
                    pts = per * len(inp)
                    if q:
                        b = bound_for(pts, 243, 2 if len(inp) == 3 else B)
                    else:
                        b = bound_for(pts, 729, 3 if pts >= 15 else (4 if pts >= 9 else B))
                    jobs.append(("chain", "chain", cfg, inp, b))
    plans["chain"] = ({"chain_length": [2, 3], "craq": [True, False], "store_profiles(W,R ticks)": PROFILES,
                       "writes": ("<=3 writes that repeat a key (length 3: <=2 writes plus two 3-write sequences)" if q else
                                  "length 2: <=3 writes, all key patterns; length 3: <=2 writes all patterns, 3 writes "
                                  "repeating a key with gaps {1,3}"),
                       "issue_gaps_ticks": list(G), "delay_menu_ticks": list(MENU),
                       "reads": "CRAQ on: every tick while a write is unacknowledged or a message in flight (+ store "
                                "latencies), every written key, at every non-tail node; forwarded reads travel 1 tick; "
                                "CRAQ off: none (tail reads only is the documented usage and is tautological here)",
                       "delay_assignments": (f"full product when <= {5 if q else 6} choice points; else deviation "
                                             + ("bound 3 for 2 writes, 2 for 3 writes" if q else
                                                "bound 5 (<9 points), 4 (9-14 points), 3 (15 points)"))}, jobs)

    # -- multi-leader -----------------------------------------------------------
    # every shipped resolver; 'lww' (the default) gets the widest exploration, the others the same inputs (all of
    # which include exact ties between different leaders) under a smaller deviation bound in the quick tier
    jobs = []
    for n in (2, 3):
        for prof in ("instant", "slow"):
            for res in RESOLVERS:
                main_res = res == "lww"
                cfg = {"n": n, "prof": prof, "resolver": res}
                if q and n == 2:
                    inps = ml_inputs((2,), G, 2, early=main_res) + ml_inputs((3,), G, 2)
                elif q:
                    two = ml_inputs((2,), G, 3)
                    inps = two + [
                        x for x in ml_inputs((3,), (0, 1), 3)
                        if len({l for (_t, l, _k, _v) in x["writes"]}) == 3
                        and len({k for (_t, _l, k, _v) in x["writes"]}) == 1]
                    if res in ("lww", "vcmerge"):   # the resolvers that break timestamp ties by writer id
                        inps = inps + with_early_rounds(two, 3, (2, 6))
                elif n == 2:
                    inps = ml_inputs((2, 3), G, 2, early=main_res or res == "vcmerge")
                else:
                    two = ml_inputs((2,), G, 3)
                    three = ml_inputs((3,), (0, 1), 3)
                    inps = ml_inputs((2,), G, 3, early=main_res) + three + with_early_rounds(two, 3, (2, 4, 6))
                    if main_res:
                        inps = inps + with_early_rounds(three, 3, (2, 6))
                for inp in inps:
                    if q:
                        b = B if main_res else 2
                    elif n == 2:
                        b = B if (main_res or res == "vcmerge") else 3
                    elif inp["early"] is not None and inp["early"][1] != inp["writes"][1][0] + 1:
                        b = 3 if len(inp["writes"]) == 2 else 2     # early rounds on tied writes
                    else:
                        b = (4 if len(inp["writes"]) == 2 else 3) if main_res else (3 if len(inp["writes"]) == 2 else 2)
                    jobs.append(("multileader", "ml", cfg, inp, b))
    plans["multileader"] = ({"leaders": [2, 3],
                             "resolvers": {"lww": "LastWriterWins()", "vcmerge": "VectorClockMerge() (timestamp fallback)",
                                           "vcmerge-fn": "VectorClockMerge(merge_fn=highest value, ties by writer id)",
                                           "custom": "CustomResolver(highest value, ties by writer id)"},
                             "store_profiles(W,R ticks)": PROFILES,
                             "writes": "2-3 writes, some key written twice, every placement of writers on leaders up to "
                                       "renaming" + (" (3 leaders: 2 writes, plus 3 concurrent writers on one key with gaps "
                                                     "{0,1})" if q else " (3 leaders x 3 writes: gaps {0,1})") +
                                       "; gap 0 = exact tie of write instants between different leaders, with distinct AND "
                                       "with equal values",
                             "issue_gaps_ticks": list(G), "delay_menu_ticks": list(MENU),
                             "anti_entropy": f"fired by the harness at every leader in turn after the last possible "
                                             f"delivery, {AE_GAP} ticks apart (1 round for 2 leaders, 2 for 3); peer = "
                                             f"random.choice owned by the explorer; optional early round during the writes "
                                             f"with explored message delays" + (" (lww, 2 leaders x 2 writes)" if q else
                                                                                " (lww; vcmerge for 2 leaders)") +
                                             "; 3 leaders: whenever two leaders write one key at the same instant, one "
                                             "extra round fired DURING replication at every leader x offset "
                                             + ("{2,6} ticks after the writes (lww at bound 3, vcmerge at bound 2; 2 writes)" if q else
                                                "{2,4,6} (all resolvers, 2 writes, bound 3) / {2,6} (lww, 3 writes, "
                                                "bound 2)") + ", peer pick and message delays explored",
                             "delay_assignments": ("deviation bound 3 for lww, 2 for the other resolvers" if q else
                                                   "lww: deviation bound 5 (3 leaders: 4 for 2 writes, 3 for 3 writes); "
                                                   "vcmerge: 5 (3 leaders: 3 / 2); vcmerge-fn, custom: 3 (3 leaders: 3 / 2)") +
                                                  " over message delays and anti-entropy peer picks (= full product when "
                                                  "there are no more choice points than that)"}, jobs)
    return plans


def run_driver(run, name, bounds, jobs, seed):
    t0 = time.time()
    d = run.driver(name, bounds)
    # VERIF_SEED rotates the order in which the sub-spaces are explored; results are aggregated in plan order so
    # that counts and witnesses do not depend on it
    order = rotate(list(range(len(jobs))), seed)
    res_rot = pmap(_job, [jobs[i] for i in order], chunksize=1, ordered=True)
    res = [None] * len(jobs)
    for i, st in zip(order, res_rot):
        res[i] = st
    agg = {"horizon": 0, "unacked": 0, "pre_ae_div": 0, "premise_unmet": 0, "meta_diff": 0, "cpu": 0.0}
    viol = {}
    bounded = 0
    for job, st in zip(jobs, res):
        d.executions += st["exec"]
        d.transitions += st["trans"]
        d.nontrivial += st["nontriv"]
        d.states += st["outcomes"]
        for k in agg:
            agg[k] += st[k]
        if job[4] is not None:
            bounded += 1
        for fp, (desc, rep, cnt) in st["viol"].items():
            if fp not in viol:
                viol[fp] = [desc, rep, 0]
            viol[fp][2] += cnt
        if len(d.samples) < 3 and st["samples"]:
            d.samples.append(st["samples"][0])
    # first witness per fingerprint in plan order (simplest inputs first)
    for fp in sorted(viol):
        desc, rep, cnt = viol[fp]
        # re-run the witness from its replay data (no explorer) before reporting it
        _w, _r, again = execute(rep["scheme"], rep["cfg"], rep["input"], Chooser(prefix=rep["choices"]))
        if fp not in [f for (f, _d) in again]:
            raise RuntimeError(f"C17 harness: witness of {fp} does not reproduce from its replay data: {rep}")
        for _ in range(cnt):
            run.violation(fp, desc, rep)
    d.outcomes = d.states
    d.extra = {"sub_spaces": len(jobs), "sub_spaces_deviation_bounded": bounded, "cpu_s": round(agg["cpu"], 1),
               "executions_hitting_event_horizon": agg["horizon"], "executions_with_unacknowledged_write": agg["unacked"]}
    if name == "multileader":
        d.extra["executions_diverged_before_anti_entropy(not a violation)"] = agg["pre_ae_div"]
        d.extra["executions_where_anti_entropy_premise_unmet(convergence not judged)"] = agg["premise_unmet"]
        d.extra["executions_with_equal_values_but_different_version_metadata(observation, not a violation)"] = \
            agg["meta_diff"]
    if agg["horizon"]:
        d.exhaustive = False
        d.caps.append(f"{agg['horizon']} executions stopped at the event horizon (convergence not judged there)")
    d.wall_s = time.time() - t0
    print(f"[{PID}] {name}: sub_spaces={len(jobs)} cpu={agg['cpu']:.1f}s", flush=True)


def run_rstore(run, tier, seed):
    t0 = time.time()
    lat_menu = (0, 1, 2)
    nrep = (2, 3)
    cfgs = []
    for n in nrep:
        for lats in itertools.product(lat_menu, repeat=n):
            for lvl in ("ONE", "QUORUM", "ALL"):
                cfgs.append({"lats": list(lats), "level": lvl})
    gaps = (0, 1, 2, 3) if tier == "quick" else (0, 1, 2, 3, 4, 5)
    inps = write_inputs((2, 3), gaps, repeated_only=True)
    d = run.driver("rstore", {"replicas": list(nrep), "replica_write_latency_ticks": list(lat_menu),
                              "consistency": ["ONE", "QUORUM", "ALL"], "puts": "2-3 overlapping puts with a repeated key",
                              "start_gaps_ticks": list(gaps), "enumeration": "full product (no network, no choices)"})
    chunks = [cfgs[i::16] for i in range(16)]
    for st in pmap(_job_rs, [(c, inps) for c in rotate(chunks, seed) if c]):
        d.executions += st["exec"]
        d.transitions += st["trans"]
        d.nontrivial += st["nontriv"]
        d.states += st["outcomes"]
        for fp, (desc, rep, cnt) in st["viol"].items():
            for _ in range(cnt):
                run.violation(fp, desc, rep)
        if len(d.samples) < 2:
            d.samples.extend(st["samples"][:1])
    d.outcomes = d.states
    d.wall_s = time.time() - t0


# ---------------------------------------------------------------------------
# auxiliary lemma of the convergence clause: the shipped resolvers do not depend on argument order
# ---------------------------------------------------------------------------
def _mk_version(spec):
    (writer, ts, count, value) = spec
    tstamp = HLCTimestamp(physical_ns=ts[1], logical=ts[2], node_id=writer) if isinstance(ts, (tuple, list)) else float(ts)
    vc = {w_: 0 for w_ in "ABC"}
    vc[writer] = count
    return VersionedValue(value=value, timestamp=tstamp, writer_id=writer, vector_clock=vc)


def resolver_cases(kind):
    """All pairs / triples of pairwise CONCURRENT versions (one per writer A, B(, C); the only thing a leader ever
    hands to its resolver) over timestamps {1, 2} (float) or HLC (physical {1,2} x logical {0,1}), own vector-clock
    entry {1, 2}, value {1, 2}."""
    if kind == "float":
        stamps = [1.0, 2.0]
    else:
        stamps = [("hlc", p_, l_) for p_ in (1, 2) for l_ in (0, 1)]
    per = lambda wr: [(wr, ts, c, v) for ts in stamps for c in (1, 2) for v in (1, 2)]  # noqa: E731
    for u in per("A"):
        for v in per("B"):
            yield (u, v)
    for u in per("A"):
        for v in per("B"):
            for x in per("C"):
                yield (u, v, x)


def check_resolver_case(res_name, case):
    """Fold the versions through resolve(key, [held, incoming]) in every arrival order, as a leader does;
    returns (set of winners, calls)."""
    winners, calls = set(), 0
    vs = [_mk_version(c) for c in case]
    for perm in itertools.permutations(range(len(vs))):
        r = RESOLVERS[res_name]()
        held = vs[perm[0]]
        for i in perm[1:]:
            held = r.resolve("k", [held, vs[i]])
            calls += 1
        winners.add((held.value, repr(held.timestamp), held.writer_id))
    return winners, calls


def run_resolvers(run):
    t0 = time.time()
    d = run.driver("resolvers", {"resolvers": list(RESOLVERS), "versions": "pairs and triples of pairwise concurrent "
                                 "versions, one per writer", "timestamps": "float {1,2}; HLC physical {1,2} x logical {0,1}",
                                 "own_vector_clock_entry": [1, 2], "values": [1, 2],
                                 "arrival_orders": "all permutations, folded pairwise as a leader does",
                                 "role": "auxiliary lemma (argument-order independence) of the convergence clause; the "
                                         "deciding check is the replica-level 'multileader' driver"})
    seen = set()
    for res_name in RESOLVERS:
        for kind in ("float", "hlc"):
            for case in resolver_cases(kind):
                winners, calls = check_resolver_case(res_name, case)
                d.executions += 1
                d.transitions += calls
                seen |= winners
                tie = len({repr(c[1]) for c in case}) < len(case)
                if tie:
                    d.nontrivial += 1
                if len(winners) > 1:
                    fp = (f"Resolver/{res_name}/depends-on-arrival-order/"
                          f"{'pair' if len(case) == 2 else 'triple'}-{kind}-{'tied' if tie else 'distinct'}-timestamps")
                    run.violation(fp, f"{res_name}: concurrent versions {case} (writer, timestamp, own clock, value) "
                                      f"resolve to different winners depending on which one a leader already holds: "
                                      f"{sorted(winners)}",
                                  {"driver": "resolvers", "scheme": "resolver", "cfg": {"resolver": res_name},
                                   "input": [list(c) for c in case]})
                if len(d.samples) < 2 and tie:
                    d.samples.append({"resolver": res_name, "versions": case, "winners": sorted(winners)})
    d.states = d.outcomes = len(seen)
    d.wall_s = time.time() - t0


def main(tier, seed, only=None):
    run = Run(PID, tier, seed, "model_checking",
              rule=("one execution = one configuration x one write sequence x one complete assignment of per-message "
                    "link delays (and anti-entropy peer picks) run on the real Simulation/Network/replication nodes; "
                    "executions are distinct by construction; non-trivial = some link delivered two messages in the "
                    "opposite order of sending, or two writes of one key were in flight together, or a leader detected "
                    "a concurrent-write conflict while replicating (rstore: a put started before an earlier put of the key returned); "
                    "states = distinct end-to-end observations (final stores, per-ack replica snapshots, read replies) "
                    "summed over sub-spaces"),
              assumptions=["1 tick = 1 s so every instant and timestamp is an exact integer-second float",
                           "stores are harness subclasses of KVStore that only record completed put()/put_sync() calls; "
                           "reply futures are SimFuture subclasses that only note the resolve instant",
                           "applications at the very instant of an acknowledgement / read reply count as done (ties are "
                           "resolved in the library's favour)",
                           "multi-leader convergence is judged only when the harness-fired anti-entropy exchanges let "
                           "every leader learn from every other one (push-pull information flow)",
                           "chain reads go to every node only with CRAQ enabled (documented usage: tail reads otherwise)",
                           "resolvers that take a user function get 'highest value wins, ties by writer id': a symmetric "
                           "total order that extends causality (values grow in issue order), so convergence stays the "
                           "library's responsibility"])
    plans = plan(tier)
    for name, (bounds, jobs) in plans.items():
        if only and name not in only:
            continue
        run_driver(run, name, bounds, jobs, seed)
    if not only or "rstore" in only:
        run_rstore(run, tier, seed)
    if not only or "resolvers" in only:
        run_resolvers(run)
    return run.finish()


# ---------------------------------------------------------------------------
# replay (no explorer): re-execute one delay assignment, print the trace, re-evaluate the oracle
# ---------------------------------------------------------------------------
def _thaw(x):
    if isinstance(x, list):
        return [_thaw(i) for i in x]
    if isinstance(x, dict):
        return {k: _thaw(v) for k, v in x.items()}
    return x


def replay(data):
    rep = data["replay"]
    scheme, cfg, inp = rep["scheme"], _thaw(rep["cfg"]), _thaw(rep["input"])
    want = data.get("fingerprint")
    print(f"scheme={scheme} cfg={cfg}")
    print(f"input={inp}")
    if scheme == "resolver":
        case = tuple(tuple(tuple(f) if isinstance(f, list) else f for f in c) for c in inp)
        hit = False
        for perm in itertools.permutations(range(len(case))):
            r_ = RESOLVERS[cfg["resolver"]]()
            held = _mk_version(case[perm[0]])
            for i in perm[1:]:
                inc = _mk_version(case[i])
                win = r_.resolve("k", [held, inc])
                print(f"  order {perm}: holds {held.writer_id}:{held.value}@{held.timestamp}, receives "
                      f"{inc.writer_id}:{inc.value}@{inc.timestamp} -> keeps {win.writer_id}:{win.value}")
                held = win
        winners, _c = check_resolver_case(cfg["resolver"], case)
        if len(winners) > 1:
            print(f"  !! winners differ by arrival order: {sorted(winners)}")
            hit = True
        return 1 if hit else 0
    if scheme == "rs":
        inp = [tuple(x) for x in inp]
        w, r, viol = run_rs(cfg, inp)
    else:
        if scheme == "ml":
            inp = {"writes": [tuple(x) for x in inp["writes"]], "early": tuple(inp["early"]) if inp.get("early") else None}
        else:
            inp = [tuple(x) for x in inp]
        print(f"choices (index into delay menu {list(MENU)} per message, in sending order)={rep['choices']}")
        w, r, viol = execute(scheme, cfg, inp, Chooser(prefix=rep["choices"]))
    for line in w.trace():
        print("  " + line)
    if scheme == "chain":
        for (t0, n, k, f) in w.reads:
            if n != "T" and f.is_resolved and f.value.get("value") is not None:
                print(f"  read {k} at {n} issued t={t0} replied t={f.at} value={f.value.get('value')}")
    print(f"  run outcome: {r['outcome']} after {r['events']} events; final stores: "
          f"{ {n: dict((k, s.get_sync(k)) for k in s.keys()) for n, s in w.stores.items()} }")
    hit = False
    for fp, desc in viol:
        print(f"  !! {fp}: {desc}")
        if want is None or fp == want:
            hit = True
    return 1 if hit else 0

"""C15 — durably acknowledged writes survive a crash at any point.

Engine E2, crash-point enumeration (evidence level ``fault_enumeration``).

Workloads: ALL sequences of <= 4 (quick) / <= 5 (thorough) puts/deletes on keys
{a, b}, issued by 1 or 2 concurrent writer generator processes inside a real
``Simulation`` against a real ``LSMTree`` + ``WriteAheadLog``; every sync policy
the library offers (every write, batch(2), periodic); memtable size 1 and 2
(with size-tiered compaction at 2 tables, so flushes AND compactions happen in
the middle of the workload); the second writer starts at t=0 (tie) and inside
every distinct window of the first writer's solo run (midpoint between any two
consecutive delivery instants: during its log write, its log sync, its memtable
insert, its flush, its compaction); thorough also starts it ON those instants
(ties) and adds a 3-level tree and leveled compaction.  quick and the 5-op
thorough drivers use the key-renaming symmetry a<->b (writer 0's first op is on
key a); the thorough ``allkeys-*`` drivers explore <= 4 ops without it.

For each workload the uninterrupted run has N deliveries.  For EVERY k in
[0, N] the workload is re-executed from scratch, stopped after delivery k
through ``sim.control`` (pause / step), then ``crash()`` +
``recover_from_crash()`` are called and every key is read with ``get_sync``;
then recovery is run a second time (once without and once with another crash)
and the keys are read again.

Oracle (each clause = a phrase of the statement):
  * durable(op)  :=  seq(op) <= wal.synced_up_to read at the crash point, OR the
    call has returned and the sync policy's documented contract makes a returned
    call a synced one (SyncEveryWrite: every returned put/delete; SyncOnBatch(n)
    with one writer: ops 1..j once the j-th call, j multiple of n, returned;
    SyncPeriodic: watermark only)
    ("write whose write-ahead-log sync had completed before the crash");
    seq(op) = order in which the harness's processes began their put/delete
    calls (= log append order; cross-checked against the public
    ``wal.stats.writes``).
  * for key x with last durable op d: recovered value must be value(d) or the
    value of an op on x that began after d ("readable with its latest durable
    value"); a value of an op that began before d is an overwritten/deleted
    value ("no overwritten or deleted value is resurrected"); without a durable
    op on x: absent or the value of any begun op on x.
  * a recovered value that no begun op wrote to that key is a phantom
    ("no value that was never written appears").
  * image after a second recover_from_crash(), and after a second
    crash()+recover_from_crash(), equals the first image ("recovering twice
    gives the same state as recovering once").
The oracle is silent about pre-crash reads, timing, statistics and the values of
writes that were not durable.
"""
from __future__ import annotations

import itertools
import time

from mc.evidence import Run, digest
from mc.harness import Entity, Event, Instant, Simulation, pmap, rotate

from happysimulator.components.storage.lsm_tree import LSMTree, SizeTieredCompaction, LeveledCompaction
from happysimulator.components.storage.wal import (SyncEveryWrite, SyncOnBatch, SyncPeriodic,
                                                    WriteAheadLog)

PID = "C15"
KEYS = ("a", "b")
OPKINDS = (("put", "a"), ("put", "b"), ("del", "a"), ("del", "b"))
MAX_EVENTS = 4000  # explicit horizon for one run (a normal run has < 80 deliveries)

# sync policies offered by wal.py.  Periodic interval 0.6 ms: with the library's
# default latencies (log write 0.1 ms, sync 1 ms, flush 2 ms) some appends sync and
# some do not.
POLICIES = ("every", "batch2", "periodic")
# (memtable_size, compaction) ; compaction = (strategy, trigger, max_levels)
CFG_QUICK = [(1, ("tiered", 2, 2)), (2, ("tiered", 2, 2))]
CFG_THOROUGH = [(1, ("tiered", 2, 2)), (2, ("tiered", 2, 2)), (1, ("tiered", 2, 3)), (1, ("leveled", 2, 3))]


def mk_policy(name):
    if name == "every":
        return SyncEveryWrite()
    if name == "batch2":
        return SyncOnBatch(batch_size=2)
    if name == "periodic":
        return SyncPeriodic(interval_s=0.0006)
    raise AssertionError(name)


def mk_compaction(c):
    kind, trig, _lv = c
    if kind == "tiered":
        return SizeTieredCompaction(min_sstables=trig)
    if kind == "leveled":
        return LeveledCompaction(level_0_max=trig, size_ratio=2, base_size_keys=1)
    raise AssertionError(c)


# ---------------------------------------------------------------------------
# harness: writer processes + bookkeeping
# ---------------------------------------------------------------------------
class Ctx:
    def __init__(self):
        self.ops = []          # in begin order: dict(seq, w, i, kind, key, value, done, begin_idx, end_idx, ...)
        self.n = 0             # deliveries completed (maintained by the observing hook of full runs only)
        self.deliveries = []   # full runs: (time_ns, event_type, target name) per delivered event
        self.samples = []      # full runs: (flushes suspended [private, attribution only], stats.memtable_flushes,
        #                        stats.compactions, wal.synced_up_to) after each delivery
        self.seq_mismatch = None
        self.phase = 1         # 2 = workload issued after a crash + recovery (two-phase driver)
        self.lsm = None
        self.wal = None


def _wal_writes(wal):
    try:
        return wal.stats.writes
    except Exception:  # noqa: BLE001 - public stats missing after a refactor: fall back to own counter
        return None


class Writer(Entity):
    """One client process: issues its ops back to back with the generator API."""

    def __init__(self, name, ctx, w, ops):
        super().__init__(name)
        self.ctx = ctx
        self.w = w
        self.ops = ops

    def handle_event(self, event):
        return self._run()

    def _run(self):
        c = self.ctx
        lsm = c.lsm
        for i, (kind, key) in enumerate(self.ops):
            seq = len(c.ops) + 1
            n = _wal_writes(c.wal)
            if n is not None and n + 1 != seq and c.seq_mismatch is None:
                c.seq_mismatch = (seq, n + 1)
            rec = {"seq": seq, "w": self.w, "i": i, "kind": kind, "key": key, "phase": c.phase,
                   "value": (f"{'v' if c.phase == 1 else 'x'}{self.w}{i}" if kind == "put" else None),
                   "done": False, "t0": self.now.nanoseconds, "t1": None,
                   "begin_idx": c.n, "end_idx": None,
                   "flush_active_at_begin": _flush_active(lsm)}
            c.ops.append(rec)
            if kind == "put":
                yield from lsm.put(key, rec["value"])
            else:
                yield from lsm.delete(key)
            rec["done"] = True
            rec["t1"] = self.now.nanoseconds
            rec["end_idx"] = c.n
        return None


def _flush_active(lsm):
    """Attribution only (never decides a verdict): number of memtable flushes suspended right now."""
    imm = getattr(lsm, "_immutable_memtables", None)
    if imm is None:
        return None
    try:
        return len(imm)
    except Exception:  # noqa: BLE001
        return None


def build(policy, cfg, writers):
    """writers: tuple of (start_ns, ops).  Returns (sim, ctx)."""
    memsize, comp = cfg
    c = Ctx()
    wal = WriteAheadLog("wal", sync_policy=mk_policy(policy))
    lsm = LSMTree("db", memtable_size=memsize, compaction_strategy=mk_compaction(comp), wal=wal,
                  max_levels=comp[2])
    c.lsm, c.wal = lsm, wal
    ents = [Writer(f"w{w}", c, w, ops) for w, (_off, ops) in enumerate(writers)]
    sim = Simulation(entities=[lsm, wal] + ents)
    for e, (off, _ops) in zip(ents, writers):
        sim.schedule(Event(time=Instant(int(off)), event_type="start", target=e))
    return sim, c


def run_full(sim, c, k=None):
    """Observed run (hook on every delivery): to completion under the horizon (k=None) or until k
    deliveries.  Returns 'done' | 'horizon' | 'paused'."""
    ctl = sim.control
    st = {"outcome": "done"}

    def hook(ev):
        c.n += 1
        c.deliveries.append((ev.time.nanoseconds, ev.event_type, getattr(ev.target, "name", None)))
        try:
            s = c.lsm.stats
            fl, cp = s.memtable_flushes, s.compactions
        except Exception:  # noqa: BLE001
            fl = cp = None
        c.samples.append((_flush_active(c.lsm), fl, cp, c.wal.synced_up_to))
        if k is None and c.n >= MAX_EVENTS:
            st["outcome"] = "horizon"
            ctl.pause()

    ctl.on_event(hook)
    if k is None:
        sim.run()
        return st["outcome"]
    ctl.pause()
    sim.run()
    if k > 0:
        ctl.step(k)
    return "paused"


def run_to(sim, k):
    """Unobserved run: deliver exactly k events through the public control surface, then stop."""
    ctl = sim.control
    ctl.pause()
    sim.run()          # pauses before the first pop: crash point k = 0
    if k > 0:
        ctl.step(k)


def image(lsm):
    return tuple(lsm.get_sync(x) for x in KEYS)


def crash_and_recover(c):
    """The fault + the three observations."""
    lsm, wal = c.lsm, c.wal
    synced = wal.synced_up_to
    info = {"wal_size_before": wal.size}
    info["crash"] = lsm.crash()
    info["recover"] = lsm.recover_from_crash()
    img1 = image(lsm)
    lsm.recover_from_crash()
    img1b = image(lsm)
    lsm.crash()
    lsm.recover_from_crash()
    img2 = image(lsm)
    return {"synced": synced, "img1": img1, "img1b": img1b, "img2": img2, "info": info}


# ---------------------------------------------------------------------------
# oracle
# ---------------------------------------------------------------------------
def rt_before(o, d):
    """o returned before d began (real-time order of the calls; the only order a client can know).
    Every call of the workload that ran before a crash (phase 1) precedes every call issued after the
    recovery (phase 2): the crash killed the phase-1 processes."""
    po, pd = o.get("phase", 1), d.get("phase", 1)
    if po != pd:
        return po < pd
    if o["w"] == d["w"]:
        return o["i"] < d["i"]
    return o["end_idx"] is not None and o["end_idx"] < d["begin_idx"]


def view_at(ops0, k):
    """Ops of the uninterrupted run that had begun after k deliveries (with their 'done' flag then)."""
    out = []
    for o in ops0:
        if o["begin_idx"] < k:
            o2 = dict(o)
            o2["done"] = o["end_idx"] is not None and o["end_idx"] < k
            if not o2["done"]:
                o2["end_idx"] = None
                o2["t1"] = None
            out.append(o2)
    return out


BATCH_N = 2  # batch size of the "batch2" policy (mk_policy)


def durable_seqs(ops, synced, policy, nwriters):
    """Sequence numbers of the begun ops whose write-ahead-log sync had completed at the crash point.

    (1) the log's own watermark: seq <= wal.synced_up_to (every policy);
    (2) acknowledgement, where the policy's documented contract makes a returned call imply a completed sync:
        * SyncEveryWrite ("sync after every write"; should_sync is always True, append() only returns after
          the fsync latency): every put/delete that has RETURNED is durable, whatever the watermark says;
        * SyncOnBatch(n) ("sync after N accumulated writes"), single writer only (with concurrent writers
          which append closes a batch is not defined by the contract): when the writer's j-th call has
          returned and j is a multiple of n, that call's append closed a batch and fsynced it, so ops 1..j
          are durable;
        * SyncPeriodic: a returned call promises nothing; watermark only.
    """
    dur = {o["seq"] for o in ops if o["seq"] <= synced}
    if policy == "every":
        dur |= {o["seq"] for o in ops if o["done"]}
    elif policy == "batch2" and nwriters == 1:
        closed = [o["seq"] for o in ops if o["done"] and o["seq"] % BATCH_N == 0]
        if closed:
            dur |= {o["seq"] for o in ops if o["seq"] <= max(closed)}
    return dur


def allowed_values(ops, dur, key):
    """Values key may hold after recovery: the last op on key of some linearisation (consistent with
    the real-time order of the calls) of all durable ops plus any subset of the other begun ops.
    ``dur`` = durable_seqs(...).  Returns (allowed set, durable ops on key).  None = absent."""
    on_key = [o for o in ops if o["key"] == key]
    durable = [o for o in on_key if o["seq"] in dur]
    allowed = {o["value"] for o in on_key if not any(rt_before(o, d) for d in durable)}
    if not durable:
        allowed.add(None)
    return allowed, durable


def _why(d, synced):
    if d["seq"] <= synced:
        return f"wal.synced_up_to={synced} at the crash point"
    return (f"its call had returned before the crash and the sync policy's contract makes a returned call a "
            f"synced one, yet wal.synced_up_to={synced} < {d['seq']} and crash() discarded its log entry")


def classify(ops, res):
    """Returns list of (clause, key, got, d, description); d = the durable op whose effect is missing."""
    out = []
    synced = res["synced"]
    for ki, key in enumerate(KEYS):
        got = res["img1"][ki]
        allowed, durable = allowed_values(ops, res["dur"], key)
        if got in allowed:
            continue
        on_key = [o for o in ops if o["key"] == key]
        if got is not None and not any(o["value"] == got for o in on_key):
            out.append(("phantom", key, got, None,
                        f"after crash+recovery key {key!r} reads {got!r}, which no begun operation wrote to it"))
            continue
        if got is not None:
            x = [o for o in on_key if o["value"] == got][0]
            d = max((dd for dd in durable if rt_before(x, dd)), key=lambda o: o["seq"])
            what = "deleted" if d["kind"] == "del" else "overwritten"
            out.append(("resurrected" if d["seq"] <= synced else "resurrected-over-acknowledged", key, got, d,
                        f"after crash+recovery key {key!r} reads {got!r} (op seq={x['seq']}, returned before op "
                        f"seq={d['seq']} began) although op seq={d['seq']} ({d['kind']} {key}), which {what} it, was "
                        f"durable: {_why(d, synced)}"))
        else:
            # absent, although every way of ending absent is ruled out by a durable put
            d = max((dd for dd in durable if dd["kind"] == "put"), key=lambda o: o["seq"])
            out.append(("lost-durable" if d["seq"] <= synced else "lost-acknowledged", key, got, d,
                        f"after crash+recovery key {key!r} is absent although op seq={d['seq']} "
                        f"(put {key}={d['value']!r}) was durable: {_why(d, synced)}"))
    if res["img1b"] != res["img1"]:
        out.append(("recover-not-idempotent/second-recover-without-crash", None, None, None,
                    f"image after recover_from_crash() = {res['img1']}, after calling it again = {res['img1b']}"))
    if res["img2"] != res["img1"]:
        out.append(("recover-not-idempotent/second-crash-and-recover", None, None, None,
                    f"image after crash+recover = {res['img1']}, after a second crash+recover = {res['img2']}"))
    return out


def shape_of(c, k, d, key, pre_img, ops, dur):
    """Shape class of the witness, for the fingerprint (attribution only; never decides a verdict).
      live-state-already-wrong : a get_sync BEFORE crash() already returned a value outside the allowed
                                 set, at a crash point with no flush suspended or after >= 2 completed
                                 compactions (the store was wrong before the fault: not crash handling)
      returned-before-second-compaction-completed : d's call had returned (its data reached an SSTable or a
                                 memtable) and >= 2 compactions had completed at the crash point
      began-during-flush       : d began while a memtable flush was suspended
      other-flush-began-while-in-flight : no flush suspended when d began; a flush begun by ANOTHER process
                                 started while d's call was still in flight
      no-flush-overlap         : neither
    """
    if d is None:
        return "any"
    act = c.samples[k - 1][0] if k > 0 else 0
    if act is None or d.get("flush_active_at_begin") is None:
        return "window-unknown"
    ncomp = (c.samples[k - 1][2] if k > 0 else 0) or 0
    if pre_img is not None and (act == 0 or (ncomp >= 2 and d["done"])):
        # reads are reliable (no flush suspended), or d had returned and two compactions already completed
        allowed, _ = allowed_values(ops, dur, key)
        if pre_img[KEYS.index(key)] not in allowed:
            return "live-state-already-wrong"
    if ncomp >= 2 and d["done"]:
        return "returned-before-second-compaction-completed"
    if d["flush_active_at_begin"]:
        return "began-during-flush"

    def begun(s):
        return s[0] + s[1]

    bi = d["begin_idx"]
    last = k if d["end_idx"] is None else min(k, d["end_idx"] + 1)
    prev = begun(c.samples[bi - 1]) if bi > 0 else 0
    for idx in range(bi, last):
        s = c.samples[idx]
        if s[0] is None or s[1] is None:
            return "window-unknown"
        if begun(s) > prev and c.deliveries[idx][2] != f"w{d['w']}":
            return "other-flush-began-while-in-flight"
        prev = begun(s)
    return "no-flush-overlap"


def diagnose(policy, cfg, writers, k):
    """Observed re-execution of one (workload, crash point): re-evaluates the oracle (a violation is
    reported only if it reproduces here) and names the shape.  Returns (list of (fp, desc), ctx, res, ops)."""
    sim, c = build(policy, cfg, writers)
    run_full(sim, c, k)
    ops = view_at(c.ops, k)
    synced0 = c.wal.synced_up_to
    pre = image(c.lsm)
    res = crash_and_recover(c)
    res["dur"] = durable_seqs(ops, res["synced"], policy, len(writers))
    out = []
    for clause, key, _got, d, desc in classify(ops, res):
        if d is None:
            fp = f"LSMTree/{clause}" if "/" in clause else f"LSMTree/{clause}/any"
        else:
            fp = f"LSMTree/{clause}/{shape_of(c, k, d, key, pre, ops, res['dur'])}"
        out.append((fp, desc))
    return out, c, res, ops, pre


# ---------------------------------------------------------------------------
# one workload: full run + every crash point
# ---------------------------------------------------------------------------
def explore_workload(policy, cfg, writers, stats):
    sim, c0 = build(policy, cfg, writers)
    outcome = run_full(sim, c0, None)
    n = c0.n
    stats["exec"] += 1
    stats["trans"] += n
    if outcome != "done" or any(not o["done"] for o in c0.ops):
        # the statement does not promise termination: a run that does not finish is a reported cap
        # (driver marked non-exhaustive), never a verdict and never a hang of the checker
        stats["horizon"] += 1
        return
    if c0.seq_mismatch and "seqnote" not in stats:
        stats["seqnote"] = c0.seq_mismatch
    overlap = any(o["flush_active_at_begin"] for o in c0.ops)
    ncomp = c0.samples[-1][2] or 0
    stats["with_compaction"] += 1 if ncomp else 0
    nops = len(c0.ops)
    for k in range(n + 1):
        sim, c = build(policy, cfg, writers)
        run_to(sim, k)
        ops = view_at(c0.ops, k)
        # determinism self-check: the re-execution is a prefix of the uninterrupted run
        if [(o["kind"], o["key"], o["done"]) for o in c.ops] != [(o["kind"], o["key"], o["done"]) for o in ops] \
                or (k > 0 and c.wal.synced_up_to != c0.samples[k - 1][3]):
            raise RuntimeError(f"nondeterministic re-execution: {policy} {cfg} {writers} k={k}")
        stats["trans"] += k
        stats["exec"] += 1
        inflight = any(not o["done"] for o in ops)
        act = c0.samples[k - 1][0] if k > 0 else 0
        res = crash_and_recover(c)
        synced = res["synced"]
        dur = res["dur"] = durable_seqs(ops, synced, policy, len(writers))
        ndur = len(dur)
        if any(q > synced for q in dur):
            stats["ack_above_watermark"] += 1
        stats["states"].add(digest((policy, cfg, tuple((o["kind"], o["key"], o["done"]) for o in ops),
                                    synced, res["info"]["wal_size_before"],
                                    c0.samples[k - 1][1:3] if k > 0 else None, res["img1"])))
        cls = []
        for ki, key in enumerate(KEYS):
            allowed, durable = allowed_values(ops, dur, key)
            got = res["img1"][ki]
            if got not in allowed:
                cls.append("BAD")
            elif not durable:
                cls.append("nodur-absent" if got is None else "nodur-value")
            elif any(o["value"] == got for o in durable):
                cls.append("durable-absent" if got is None else "durable-value")
            else:
                cls.append("newer-undurable")
        lost = res["info"]["crash"]
        lost_unsynced = (lost.get("wal_entries_lost", 0) > 0) if isinstance(lost, dict) else None
        stats["outcomes"].add((tuple(cls), lost_unsynced, bool(act), inflight))
        if ndur > 0 and inflight:
            stats["nontriv"] += 1
        if act:
            stats["crash_in_flush"] += 1
        viol = classify(ops, res)
        if viol:
            fps, _c, _r, _o, _p = diagnose(policy, cfg, writers, k)
            if not fps:
                raise RuntimeError(f"violation did not reproduce on re-execution: {policy} {cfg} {writers} k={k}")
            for fp, desc in fps:
                size = (nops, len(writers), k)
                old = stats["viol"].get(fp)
                stats["viol_count"][fp] = stats["viol_count"].get(fp, 0) + 1
                if old is None or size < old[2]:
                    stats["viol"][fp] = (desc, {"policy": policy, "cfg": cfg, "writers": writers, "k": k,
                                                "n_deliveries": n, "synced_up_to": synced,
                                                "image": res["img1"], "image_recover_again": res["img1b"],
                                                "image_second_crash": res["img2"]}, size)
        if len(stats["samples"]) < 2 and overlap and ndur > 0 and inflight and act:
            stats["samples"].append({"policy": policy, "cfg": cfg, "writers": writers, "k": k, "N": n,
                                     "synced_up_to": synced,
                                     "ops(seq,kind,key,value,returned)": [(o["seq"], o["kind"], o["key"], o["value"], o["done"]) for o in ops],
                                     "recovered": res["img1"], "violations": [v[0] for v in viol]})
    if overlap:
        stats["overlap_workloads"] += 1


def new_stats():
    return {"exec": 0, "trans": 0, "nontriv": 0, "states": set(), "outcomes": set(), "viol": {},
            "viol_count": {}, "samples": [], "horizon": 0, "crash_in_flush": 0, "overlap_workloads": 0,
            "workloads": 0, "with_compaction": 0, "ack_above_watermark": 0}


# ---------------------------------------------------------------------------
# workload enumeration
# ---------------------------------------------------------------------------
def op_sequences(n):
    return itertools.product(OPKINDS, repeat=n)


_SOLO_CACHE = {}


def solo_instants(policy, cfg, ops):
    """Distinct delivery instants of writer 0 running alone (ns)."""
    key = (policy, cfg, ops)
    r = _SOLO_CACHE.get(key)
    if r is None:
        sim, c = build(policy, cfg, ((0, ops),))
        run_full(sim, c, None)
        r = sorted({t for (t, _ty, _tg) in c.deliveries})
        _SOLO_CACHE[key] = r
    return r


def offsets_for(policy, cfg, ops0, ties):
    """Start offsets of writer 1: the tie at 0, the midpoint of every window between two consecutive
    delivery instants of writer 0's solo run, and (ties=True) those instants themselves."""
    ts = solo_instants(policy, cfg, ops0)
    offs = [0]
    for x, y in zip(ts, ts[1:]):
        offs.append((x + y) // 2)
        if ties:
            offs.append(y)
    return sorted(set(offs))


def workloads_for(policy, cfg, spec, ties):
    """spec = (ops0, n1, first1): writer 0 runs ops0; n1 == 0: alone; else writer 1 runs every sequence of n1
    ops that begins with op ``first1`` at every start offset."""
    ops0, n1, first1 = spec
    if n1 == 0:
        yield ((0, ops0),)
        return
    offs = offsets_for(policy, cfg, ops0, ties)
    for tail in op_sequences(n1 - 1):
        ops1 = (first1,) + tail
        for off in offs:
            yield ((0, ops0), (off, ops1))


def _work(job):
    policy, cfg, specs, ties = job
    st = new_stats()
    for spec in specs:
        for wl in workloads_for(policy, cfg, spec, ties):
            st["workloads"] += 1
            explore_workload(policy, cfg, wl, st)
    return st


def make_jobs(policy, cfgs, max_ops, ties, keysym):
    """Independent sub-spaces, batched to roughly equal weight.  Together they cover: every ops0 of length
    1..max_ops (solo) and every (ops0, ops1) with len(ops0)+len(ops1) <= max_ops, both non-empty."""
    jobs = []
    for cfg in cfgs:
        batch, weight = [], 0
        for n0 in range(1, max_ops + 1):
            seqs = list(op_sequences(n0))
            if keysym:
                # key-renaming symmetry a<->b: writer 0's first op is on key a
                seqs = [q for q in seqs if q[0][1] == "a"]
            for ops0 in seqs:
                specs = [((ops0, 0, None), 1)]
                for n1 in range(1, max_ops - n0 + 1):
                    for first1 in OPKINDS:
                        specs.append(((ops0, n1, first1), 4 ** (n1 - 1) * 3 * n0 * (2 if ties else 1)))
                for spec, w in specs:
                    batch.append(spec)
                    weight += w
                    if weight >= 48:
                        jobs.append((policy, cfg, batch, ties))
                        batch, weight = [], 0
        if batch:
            jobs.append((policy, cfg, batch, ties))
    return jobs


def run_driver(run, name, policy, cfgs, max_ops, ties, seed, keysym=False):
    t0 = time.time()
    d = run.driver(name, {"policy": policy, "max_total_ops": max_ops, "writers": "1-2", "keys": list(KEYS),
                          "symmetry_reduction": ("key renaming a<->b (writer 0's first op is on key a)" if keysym
                                                 else "none"),
                          "op_alphabet": ["put a", "put b", "del a", "del b"],
                          "(memtable_size,(compaction,trigger,max_levels))": cfgs,
                          "writer1_start_offsets": ("tie at 0 + midpoint of every window between consecutive "
                                                    "delivery instants of writer 0's solo run"
                                                    + (" + those instants (ties)" if ties else "")),
                          "crash_points": "every k in [0, N]", "horizon_events": MAX_EVENTS})
    jobs = make_jobs(policy, cfgs, max_ops, ties, keysym)
    jobs = rotate(jobs, seed)
    states, outcomes = set(), set()
    extra = {"workloads": 0, "crash_points_with_flush_suspended": 0, "workloads_with_op_begun_during_flush": 0,
             "workloads_with_compaction": 0, "horizon_runs": 0,
             "crash_points_with_acknowledged_op_above_watermark": 0}
    for st in pmap(_work, jobs, ordered=False):
        d.executions += st["exec"]
        d.transitions += st["trans"]
        d.nontrivial += st["nontriv"]
        states |= st["states"]
        outcomes |= st["outcomes"]
        extra["workloads"] += st["workloads"]
        extra["crash_points_with_flush_suspended"] += st["crash_in_flush"]
        extra["workloads_with_op_begun_during_flush"] += st["overlap_workloads"]
        extra["horizon_runs"] += st["horizon"]
        extra["workloads_with_compaction"] += st["with_compaction"]
        extra["crash_points_with_acknowledged_op_above_watermark"] += st["ack_above_watermark"]
        if "seqnote" in st:
            run.notes.append(f"{name}: begin order != wal.stats.writes+1 at some op: {st['seqnote']}")
        for fp, (desc, rep, size) in st["viol"].items():
            _merge_violation(run, fp, desc, rep, size, st["viol_count"].get(fp, 1))
        if len(d.samples) < 3:
            d.samples.extend(st["samples"][: 3 - len(d.samples)])
    d.states = len(states)
    d.outcomes = len(outcomes)
    d.extra.update(extra)
    d.extra["outcome_classes"] = sorted(outcomes, key=repr)[:40]
    if extra["horizon_runs"]:
        d.exhaustive = False
        d.caps.append(f"{extra['horizon_runs']} workloads did not finish within the {MAX_EVENTS}-event horizon "
                      f"(their crash points were not enumerated)")
    d.wall_s = time.time() - t0


_BEST = {}


def _merge_violation(run, fp, desc, rep, size, count):
    """Keep the smallest witness per fingerprint across workers (Run keeps the first it is given)."""
    old = _BEST.get(fp)
    run.violation_counts[fp] = run.violation_counts.get(fp, 0) + count
    if old is None or tuple(size) < old:
        _BEST[fp] = tuple(size)
        run.violations[fp] = (desc, rep)


# ---------------------------------------------------------------------------
# two-phase driver: workload, crash at k, recover, SECOND workload on the recovered tree, crash at j, recover
# ---------------------------------------------------------------------------
TP_CFG = (2, ("tiered", 2, 2))


def build_phase2(c, writers2, t0_ns):
    """Fresh Simulation over the same LSMTree / WriteAheadLog objects, clock starting at the crash instant;
    the phase-1 simulation (with its dead, suspended processes) is simply never run again."""
    c.phase, c.n, c.deliveries, c.samples = 2, 0, [], []
    ents = [Writer(f"w{w}", c, w, ops) for w, (_off, ops) in enumerate(writers2)]
    sim = Simulation(start_time=Instant(int(t0_ns)), entities=[c.lsm, c.wal] + ents)
    for e, (off, _ops) in zip(ents, writers2):
        sim.schedule(Event(time=Instant(int(t0_ns + off)), event_type="start", target=e))
    return sim


def run_two_phase(policy, cfg, writers1, k, t0_ns, writers2, j, observe=False):
    """Phase 1 to delivery k, crash(), recover_from_crash(); phase 2 (writers2) to delivery j (None: to the
    end, observed).  Returns (keepalive, ctx, synced1, crash1_info, outcome)."""
    sim1, c = build(policy, cfg, writers1)
    run_to(sim1, k)
    synced1 = c.wal.synced_up_to
    info1 = c.lsm.crash()
    c.lsm.recover_from_crash()
    if writers2 is None:
        return (sim1,), c, synced1, info1, "paused"
    sim2 = build_phase2(c, writers2, t0_ns)
    if observe:
        outcome = run_full(sim2, c, j)
    else:
        run_to(sim2, j)
        outcome = "paused"
    return (sim1, sim2), c, synced1, info1, outcome


def durable_two_phase(ops1, synced1, nw1, ops2, synced2, nw2, policy):
    """Phase-1 durability is frozen at the first crash; phase-2 ops: watermark at the second crash, or the
    policy's acknowledgement contract counted from the recovery (writes_since_sync restarts at a crash)."""
    dur = durable_seqs(ops1, synced1, policy, nw1)
    dur |= {o["seq"] for o in ops2 if o["seq"] <= synced2}
    if policy == "every":
        dur |= {o["seq"] for o in ops2 if o["done"]}
    elif policy == "batch2" and nw2 == 1:
        base = len(ops1)
        closed = [o["seq"] for o in ops2 if o["done"] and (o["seq"] - base) % BATCH_N == 0]
        if closed:
            dur |= {o["seq"] for o in ops2 if o["seq"] <= max(closed)}
    return dur


def tp_eval(policy, cfg, writers1, k, t0, ops1, writers2, j, ops2_full):
    """One (phase-1 crash state, phase-2 workload, phase-2 crash point): returns (violations, res, ops)."""
    keep, c, synced1, _info1, _o = run_two_phase(policy, cfg, writers1, k, t0, writers2, j)
    ops2 = view_at(ops2_full, j)
    got2 = [o for o in c.ops if o.get("phase") == 2]
    if [(o["kind"], o["key"], o["done"]) for o in got2] != [(o["kind"], o["key"], o["done"]) for o in ops2] \
            or [(o["kind"], o["key"]) for o in c.ops if o.get("phase") == 1] != [(o["kind"], o["key"]) for o in ops1]:
        raise RuntimeError(f"nondeterministic two-phase re-execution: {policy} {writers1} k={k} {writers2} j={j}")
    res = crash_and_recover(c)
    ops = ops1 + ops2
    res["dur"] = durable_two_phase(ops1, synced1, len(writers1), ops2, res["synced"], len(writers2), policy)
    res["synced1"] = synced1
    out = []
    for clause, _key, _got, d, desc in classify(ops, res):
        if d is None:
            fp = f"LSMTree/{clause}" if "/" in clause else f"LSMTree/{clause}/any"
        else:
            fp = f"LSMTree/{clause}/second-crash-phase{d.get('phase', 1)}-op"
            desc += (f" [two-phase: first crash after delivery {k} (synced_up_to={synced1}), recovery, second workload, "
                     f"second crash after its delivery {j}]")
        out.append((fp, desc))
    del keep
    return out, res, ops


def tp_select(job):
    """Pass 1: the phase-1 crash states of one phase-1 workload at which crash() really discards an unsynced
    log tail.  class A = entries survive in the log (recovery replays something; the log has a hole in its
    sequence numbers), class B = the log is empty after the crash."""
    policy, cfg, ops0 = job
    writers1 = ((0, ops0),)
    sim, c0 = build(policy, cfg, writers1)
    if run_full(sim, c0, None) != "done":
        return {"states": [], "exec": 1, "trans": c0.n, "scanned": 0}
    out = {"states": [], "exec": 1, "trans": c0.n, "scanned": 0}
    for k in range(c0.n + 1):
        keep, c, synced1, info1, _o = run_two_phase(policy, cfg, writers1, k, 0, None, None)
        out["exec"] += 1
        out["trans"] += k
        out["scanned"] += 1
        lost = info1.get("wal_entries_lost", 0) if isinstance(info1, dict) else 0
        if lost <= 0:
            continue
        ops1 = view_at(c0.ops, k)
        t0 = c0.deliveries[k - 1][0] if k > 0 else 0
        cls = "A" if c.wal.size > 0 else "B"
        canon = digest((policy, cfg, tuple((o["kind"], o["key"], o["done"]) for o in ops1), synced1, c.wal.size,
                        image(c.lsm), c0.samples[k - 1][1:3] if k > 0 else None))
        out["states"].append({"policy": policy, "cfg": cfg, "writers1": writers1, "k": k, "t0": t0, "ops1": ops1,
                              "class": cls, "canon": canon, "lost": lost})
    return out


def tp_phase2_workloads(st, max_ops_two_writers):
    """Phase-2 workloads for one state: every solo sequence of <= 2 ops; for class A also two writers with
    1+1 ops (total <= max_ops_two_writers), writer 1 starting at 0 and in every window of writer 0's solo run."""
    for n in (1, 2):
        for ops in op_sequences(n):
            yield ((0, ops),)
    if st["class"] != "A" or max_ops_two_writers < 2:
        return
    for op0 in OPKINDS:
        keep, c, _s, _i, _o = run_two_phase(st["policy"], st["cfg"], st["writers1"], st["k"], st["t0"],
                                            ((0, (op0,)),), None, observe=True)
        ts = sorted({t - st["t0"] for (t, _ty, _tg) in c.deliveries})
        offs = sorted({0} | {(x + y) // 2 for x, y in zip(ts, ts[1:])})
        del keep
        for op1 in OPKINDS:
            for off in offs:
                yield ((0, (op0,)), (off, (op1,)))


def tp_explore(st):
    """Pass 2: every phase-2 workload x every phase-2 crash point j on one phase-1 crash state."""
    policy, cfg, writers1, k, t0, ops1 = st["policy"], st["cfg"], st["writers1"], st["k"], st["t0"], st["ops1"]
    stats = new_stats()
    for writers2 in tp_phase2_workloads(st, 2):
        keep, c0, synced1, _i, outcome = run_two_phase(policy, cfg, writers1, k, t0, writers2, None, observe=True)
        ops2_full = [o for o in c0.ops if o.get("phase") == 2]
        n2 = c0.n
        stats["exec"] += 1
        stats["trans"] += k + n2
        stats["workloads"] += 1
        del keep
        if outcome != "done" or any(not o["done"] for o in ops2_full):
            stats["horizon"] += 1
            continue
        for j in range(n2 + 1):
            viol, res, ops = tp_eval(policy, cfg, writers1, k, t0, ops1, writers2, j, ops2_full)
            stats["exec"] += 1
            stats["trans"] += k + j
            ops2 = [o for o in ops if o.get("phase") == 2]
            synced2 = res["synced"]
            if any(o["seq"] <= synced2 for o in ops2):
                stats["nontriv"] += 1   # a phase-2 write was synced on top of a log that lost its tail
            stats["states"].add(digest((st["canon"], tuple((o["kind"], o["key"], o["done"]) for o in ops2), synced2,
                                        res["info"]["wal_size_before"], res["img1"])))
            cls = []
            for ki, key in enumerate(KEYS):
                allowed, durable = allowed_values(ops, res["dur"], key)
                got = res["img1"][ki]
                cls.append("BAD" if got not in allowed else ("nodur" if not durable else
                           ("phase%d-durable" % max(o.get("phase", 1) for o in durable if o["value"] == got)
                            if any(o["value"] == got for o in durable) else "newer-undurable")))
            stats["outcomes"].add((tuple(cls), st["class"]))
            for fp, desc in viol:
                size = (len(ops1) + len(ops2_full), len(writers2), k + j)
                stats["viol_count"][fp] = stats["viol_count"].get(fp, 0) + 1
                old = stats["viol"].get(fp)
                if old is None or size < old[2]:
                    stats["viol"][fp] = (desc, {"two_phase": True, "policy": policy, "cfg": cfg, "writers": writers1,
                                                "k": k, "t0": t0, "writers2": writers2, "j": j,
                                                "synced_up_to_first_crash": synced1, "synced_up_to": synced2,
                                                "image": res["img1"]}, size)
            if len(stats["samples"]) < 1 and st["class"] == "A" and len(writers2) == 2 and j == n2 // 2:
                stats["samples"].append({"policy": policy, "phase1": writers1, "first_crash_after_delivery": k,
                                         "log_entries_lost_at_first_crash": st["lost"], "phase2": writers2,
                                         "second_crash_after_delivery": j, "recovered": res["img1"],
                                         "violations": [v[0] for v in viol]})
    return stats


def run_two_phase_driver(run, name, policies, max_ops1, keysym, seed):
    t0 = time.time()
    d = run.driver(name, {"policies": list(policies), "(memtable_size,(compaction,trigger,max_levels))": [TP_CFG],
                          "phase1": f"1 writer, <= {max_ops1} ops" + (", key symmetry (first op on a)" if keysym else ""),
                          "phase1_crash_points": ("every k at which crash() discards >= 1 unsynced log entry; class A = "
                                                  "log non-empty after the crash (every such k), class B = log empty "
                                                  "(one k per distinct public crash state)"),
                          "phase2": ("every solo sequence of <= 2 ops; class A also 2 writers x 1 op each, writer 1 at "
                                     "0 and in every window of writer 0's solo run"),
                          "phase2_crash_points": "every j in [0, N2]", "horizon_events": MAX_EVENTS})
    jobs = []
    for policy in policies:
        for n in range(1, max_ops1 + 1):
            for ops0 in op_sequences(n):
                if keysym and ops0[0][1] != "a":
                    continue
                jobs.append((policy, TP_CFG, ops0))
    states, seen_b = [], set()
    scanned = lost_states = 0
    for r in pmap(tp_select, rotate(jobs, seed)):
        d.executions += r["exec"]
        d.transitions += r["trans"]
        scanned += r["scanned"]
        for st in r["states"]:
            lost_states += 1
            if st["class"] == "B":
                if st["canon"] in seen_b:
                    continue
                seen_b.add(st["canon"])
            states.append(st)
    # deterministic order independent of worker scheduling
    states.sort(key=lambda st: (st["policy"], repr(st["writers1"]), st["k"]))
    sset, outcomes = set(), set()
    extra = {"phase1_crash_points_scanned": scanned, "phase1_crash_points_losing_a_log_tail": lost_states,
             "phase1_states_explored_class_A(log survives with a hole)": sum(1 for s in states if s["class"] == "A"),
             "phase1_states_explored_class_B(log empty)": sum(1 for s in states if s["class"] == "B"),
             "phase2_workloads": 0, "horizon_runs": 0}
    for st in pmap(tp_explore, rotate(states, seed), ordered=False):
        d.executions += st["exec"]
        d.transitions += st["trans"]
        d.nontrivial += st["nontriv"]
        sset |= st["states"]
        outcomes |= st["outcomes"]
        extra["phase2_workloads"] += st["workloads"]
        extra["horizon_runs"] += st["horizon"]
        for fp, (desc, rep, size) in st["viol"].items():
            _merge_violation(run, fp, desc, rep, size, st["viol_count"].get(fp, 1))
        if len(d.samples) < 3:
            d.samples.extend(st["samples"][: 3 - len(d.samples)])
    d.states = len(sset)
    d.outcomes = len(outcomes)
    d.extra.update(extra)
    if extra["horizon_runs"]:
        d.exhaustive = False
        d.caps.append(f"{extra['horizon_runs']} phase-2 workloads did not finish within the horizon")
    d.wall_s = time.time() - t0


def main(tier, seed, only=None):
    _BEST.clear()
    run = Run(PID, tier, seed, "fault_enumeration",
              rule=("every workload (1-2 writer processes x op sequences x sync policy x memtable size x start "
                    "offset of the second writer) is run once uninterrupted (N deliveries) and then re-executed from "
                    "scratch for every crash point k in [0,N]: stop after delivery k, crash(), recover_from_crash(), "
                    "read all keys, recover again, crash+recover again; executions = runs on the real Simulation; "
                    "transitions = event deliveries; states = distinct public crash states (ops begun/returned, "
                    "synced_up_to, wal.size, stats counters, recovered image); non-trivial = crash points at which at "
                    "least one operation was durable (seq <= synced_up_to) AND at least one put/delete was suspended "
                    "mid-flight (in its log write/sync, memtable insert, flush or compaction)"),
              assumptions=["durable(op) := begin-order index of op <= wal.synced_up_to at the crash point, or the call "
                           "returned under a policy whose contract makes return imply sync (SyncEveryWrite; "
                           "SyncOnBatch(n) for the j-th call of a single writer, j multiple of n); begin order "
                           "= log append order (cross-checked with wal.stats.writes)",
                           "operations on one key are ordered only by the real-time order of the calls (X returned "
                           "before D began); overlapping calls may take effect in either order",
                           "two-phase driver: the workload after the first recovery runs in a fresh Simulation over the "
                           "SAME LSMTree/WriteAheadLog objects, starting at the crash instant (the crashed processes "
                           "are never resumed); durability of phase-1 ops is frozen at the first crash",
                           "a crash kills the writer processes: the simulation is not resumed after recovery",
                           "private attribute _immutable_memtables is read only to name the window in fingerprints"])
    if tier == "quick":
        drivers = [(f"crashpoints-{p}", p, CFG_QUICK, 4, False, True) for p in POLICIES]
    else:
        # depth: 5 ops, ties, the two base configurations (key symmetry);
        # breadth: 4 ops, ties, NO symmetry reduction, all four configurations
        drivers = [(f"crashpoints-{p}", p, CFG_QUICK, 5, True, True) for p in POLICIES]
        drivers += [(f"allkeys-{p}", p, CFG_THOROUGH, 4, True, False) for p in POLICIES]
    for (name, policy, cfgs, max_ops, ties, keysym) in rotate(drivers, seed):
        if only and name not in only:
            continue
        run_driver(run, name, policy, cfgs, max_ops, ties, seed, keysym=keysym)
    if not only or "two-phase" in only:
        if tier == "quick":
            run_two_phase_driver(run, "two-phase", ("batch2", "periodic"), 3, True, seed)
        else:
            run_two_phase_driver(run, "two-phase", POLICIES, 4, False, seed)
    return run.finish()


# ---------------------------------------------------------------------------
# replay (no explorer): step-by-step trace of one (workload, crash point)
# ---------------------------------------------------------------------------
def _thaw(x):
    return tuple(_thaw(i) for i in x) if isinstance(x, list) else x


def _replay_two_phase(data):
    rep = data["replay"]
    policy, cfg, w1, k, t0 = rep["policy"], _thaw(rep["cfg"]), _thaw(rep["writers"]), rep["k"], rep["t0"]
    w2, j = _thaw(rep["writers2"]), rep["j"]
    print(f"two-phase: policy={policy} (memtable_size,(compaction,trigger,max_levels))={cfg}")
    for w, (off, ops) in enumerate(w1):
        print(f"  phase 1 writer {w}: starts at {off} ns, ops = {[f'{kd} {ky}' for kd, ky in ops]}")
    sim, c0 = build(policy, cfg, w1)
    run_full(sim, c0, None)
    ops1 = view_at(c0.ops, k)
    for o in ops1:
        print(f"    op seq={o['seq']} {o['kind']} {o['key']} value={o['value']!r} returned={o['done']}")
    keep, c, synced1, info1, _o = run_two_phase(policy, cfg, w1, k, t0, None, None)
    print(f"  first crash after delivery {k} (t={t0}ns): wal.synced_up_to={synced1}; crash() -> {info1}; "
          f"after recover_from_crash(): wal.size={c.wal.size} image={dict(zip(KEYS, image(c.lsm)))}")
    del keep
    for w, (off, ops) in enumerate(w2):
        print(f"  phase 2 writer {w}: starts {off} ns after the crash instant, ops = {[f'{kd} {ky}' for kd, ky in ops]}")
    keep, cf, _s, _i, _o = run_two_phase(policy, cfg, w1, k, t0, w2, None, observe=True)
    ops2_full = [o for o in cf.ops if o.get("phase") == 2]
    for i, ((t, _ty, tg), sm) in enumerate(zip(cf.deliveries[:j], cf.samples[:j]), 1):
        print(f"    phase-2 delivery {i:3d} t={t:>9d}ns resumes {tg!s:<4s} flushes_suspended={sm[0]} "
              f"stats.memtable_flushes={sm[1]} stats.compactions={sm[2]} wal.synced_up_to={sm[3]}")
    del keep
    viol, res, ops = tp_eval(policy, cfg, w1, k, t0, ops1, w2, j, ops2_full)
    for o in ops:
        if o.get("phase") == 2:
            print(f"    op seq={o['seq']} {o['kind']} {o['key']} value={o['value']!r} returned={o['done']}")
    print(f"  second crash after phase-2 delivery {j}: wal.synced_up_to={res['synced']} wal.size={res['info']['wal_size_before']}")
    print(f"  crash() -> {res['info']['crash']}; recover_from_crash() -> {res['info']['recover']}")
    print(f"  image after crash+recover         : {dict(zip(KEYS, res['img1']))}")
    print(f"  image after recover again         : {dict(zip(KEYS, res['img1b']))}")
    print(f"  image after another crash+recover : {dict(zip(KEYS, res['img2']))}")
    for key in KEYS:
        allowed, durable = allowed_values(ops, res["dur"], key)
        print(f"  key {key!r}: durable ops = {[o['seq'] for o in durable]}; allowed after recovery = {sorted(allowed, key=repr)}")
    for fp, desc in viol:
        print(f"  !! {fp}: {desc}")
    want = data.get("fingerprint")
    if want is not None:
        return 1 if any(fp == want for fp, _ in viol) else 0
    return 1 if viol else 0


def replay(data):
    rep = data["replay"]
    if rep.get("two_phase"):
        return _replay_two_phase(data)
    policy, cfg, writers, k = rep["policy"], _thaw(rep["cfg"]), _thaw(rep["writers"]), rep["k"]
    print(f"policy={policy} (memtable_size,(compaction,trigger,max_levels))={cfg}")
    for w, (off, ops) in enumerate(writers):
        print(f"  writer {w}: starts at {off} ns, ops = {[f'{kd} {ky}' for kd, ky in ops]}")
    if k is None:
        sim, c = build(policy, cfg, writers)
        out = run_full(sim, c, None)
        print(f"  run outcome: {out} after {c.n} deliveries; ops returned: {[o['done'] for o in c.ops]}")
        return 1 if (out != "done" or any(not o["done"] for o in c.ops)) else 0
    fps, c, res, ops, pre = diagnose(policy, cfg, writers, k)
    for i, ((t, ty, tg), s) in enumerate(zip(c.deliveries, c.samples), 1):
        print(f"  delivery {i:3d} t={t:>9d}ns resumes {tg!s:<4s} flushes_suspended={s[0]} stats.memtable_flushes={s[1]} "
              f"stats.compactions={s[2]} wal.synced_up_to={s[3]}")
    print(f"  -- stopped after delivery {k}; wal.synced_up_to={res['synced']} wal.size={res['info']['wal_size_before']}")
    for o in ops:
        print(f"  op seq={o['seq']} writer={o['w']} {o['kind']} {o['key']} value={o['value']!r} began t={o['t0']}ns "
              f"(delivery {o['begin_idx'] + 1}) returned={('t=%dns (delivery %d)' % (o['t1'], o['end_idx'] + 1)) if o['done'] else 'no'} "
              f"flushes_suspended_at_begin={o['flush_active_at_begin']}")
    print(f"  pre-crash image (get_sync)        : {dict(zip(KEYS, pre))}")
    print(f"  crash() -> {res['info']['crash']}")
    print(f"  recover_from_crash() -> {res['info']['recover']}")
    print(f"  image after crash+recover         : {dict(zip(KEYS, res['img1']))}")
    print(f"  image after recover again         : {dict(zip(KEYS, res['img1b']))}")
    print(f"  image after second crash+recover  : {dict(zip(KEYS, res['img2']))}")
    for key in KEYS:
        allowed, durable = allowed_values(ops, res["dur"], key)
        print(f"  key {key!r}: durable ops = {[o['seq'] for o in durable]}; allowed after recovery = {sorted(allowed, key=repr)}")
    for fp, desc in fps:
        print(f"  !! {fp}: {desc}")
    want = data.get("fingerprint")
    if want is not None:
        return 1 if any(fp == want for fp, _ in fps) else 0
    return 1 if fps else 0

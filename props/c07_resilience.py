"""C07 registry: resilience wrappers (CircuitBreaker, Bulkhead, Fallback, Hedge, TimeoutWrapper)."""
from __future__ import annotations

from props.c07_core import Backend, Drv, Entity, Event, Instant, P, R

from happysimulator.components.resilience import Bulkhead, CircuitBreaker, Fallback, Hedge, TimeoutWrapper


class _Target(Entity):
    """Backend taking L (op 'request') or 3L+1 s (op 'request_slow': beyond the wrappers' timeouts)."""

    def __init__(self, name, L, out):
        super().__init__(name)
        self.L, self.out, self.calls = L, out, 0

    def handle_event(self, event):
        self.calls += 1
        slow = event.context.get("metadata", {}).get("slow")
        return self._serve(event, 3 * self.L + P(1.0) if slow else self.L)

    def _serve(self, event, d):
        yield d
        return [Event(time=self.now, event_type="served", target=self.out, context=event.context)]


def _req(h, target, i, op):
    return [h.ev(target, "request", {"metadata": {"i": i, "slow": op.endswith("slow"), "bad": op.endswith("bad")}})]


class CircuitBreakerDrv(Drv):
    """failure_threshold 1, recovery timeout 1 s (fires inside the horizon: OPEN -> HALF_OPEN), success_threshold 1;
    'request_bad' is classified as a failure by the failure predicate."""
    family = "resilience"
    covers = ("CircuitBreaker",)
    ops = ("request", "request_bad")

    def build(self, cfg):
        self.t = _Target("target", cfg.L, self.h.out)
        self.changes = []
        self.cb = CircuitBreaker("cb", target=self.t, failure_threshold=1, success_threshold=1, timeout=P(1.0),
                                 half_open_max_requests=1,
                                 failure_predicate=lambda e: bool(e.context.get("metadata", {}).get("bad")),
                                 on_state_change=lambda a, b: self.changes.append((a, b)))
        return [self.t, self.cb]

    def init(self):
        # late probes: arrive after the recovery timeout so the half-open path runs
        return [Event(time=Instant.from_seconds(s), event_type="request", target=self.cb,
                      context={"metadata": {"i": 90 + k, "bad": False}}) for k, s in enumerate((4.0, 4.0, 6.0))]

    def request(self, i, op):
        return _req(self.h, self.cb, i, op)


class BulkheadDrv(Drv):
    contention = True
    """max_concurrent 1, wait queue 1, max wait 0.75 s."""
    family = "resilience"
    covers = ("Bulkhead",)
    ops = ("request", "request_slow")

    def build(self, cfg):
        self.t = _Target("target", cfg.L, self.h.out)
        self.bh = Bulkhead("bh", target=self.t, max_concurrent=1, max_wait_queue=1, max_wait_time=P(0.75))
        return [self.t, self.bh]

    def request(self, i, op):
        return _req(self.h, self.bh, i, op)


class FallbackEntityDrv(Drv):
    """Primary with timeout 2L+0.75 s and failure predicate; fallback is an entity."""
    family = "resilience"
    covers = ("Fallback",)
    ops = ("request", "request_slow", "request_bad")

    def build(self, cfg):
        self.p = _Target("primary", cfg.L, self.h.out)
        self.f = Backend("fallback-backend", cfg.L, self.h.out)
        self.fb = Fallback("fb", primary=self.p, fallback=self.f, timeout=2 * cfg.L + P(0.75),
                           failure_predicate=lambda e: bool(e.context.get("metadata", {}).get("bad")))
        return [self.p, self.f, self.fb]

    def request(self, i, op):
        return _req(self.h, self.fb, i, op)


class FallbackCallableDrv(Drv):
    """Fallback is a callable producing a default-response event (stamped at the clock of the call)."""
    family = "resilience"
    covers = ("Fallback",)
    ops = ("request", "request_slow")

    def build(self, cfg):
        self.p = _Target("primary", cfg.L, self.h.out)
        self.fb = Fallback("fb", primary=self.p,
                           fallback=lambda e: Event(time=self.fb.now, event_type="default", target=self.h.out),
                           timeout=2 * cfg.L + P(0.75))
        return [self.p, self.fb]

    def request(self, i, op):
        return _req(self.h, self.fb, i, op)


class HedgeDrv(Drv):
    """hedge_delay = L/2 + 0.25 s (< slow backend, > or < fast backend depending on cfg), up to 2 hedges."""
    family = "resilience"
    covers = ("Hedge",)
    ops = ("request", "request_slow")

    def build(self, cfg):
        self.t = _Target("target", cfg.L, self.h.out)
        self.hg = Hedge("hedge", target=self.t, hedge_delay=cfg.L / 2 + P(0.25), max_hedges=2)
        return [self.t, self.hg]

    def request(self, i, op):
        return _req(self.h, self.hg, i, op)


class HedgeZeroDelayDrv(Drv):
    """hedge_delay 0 where the API allows it (hedge fired at the instant of the primary)."""
    family = "resilience"
    covers = ("Hedge",)
    ops = ("request",)

    def build(self, cfg):
        self.t = _Target("target", cfg.L, self.h.out)
        try:
            self.hg = Hedge("hedge", target=self.t, hedge_delay=0.0, max_hedges=1)
        except ValueError:
            self.hg = Hedge("hedge", target=self.t, hedge_delay=P(0.25), max_hedges=1)
        return [self.t, self.hg]

    def request(self, i, op):
        return _req(self.h, self.hg, i, op)


class TimeoutWrapperDrv(Drv):
    """timeout 2L+0.75 s: 'request' completes before it, 'request_slow' after; on_timeout emits a notification."""
    family = "resilience"
    covers = ("TimeoutWrapper",)
    ops = ("request", "request_slow")

    def build(self, cfg):
        self.t = _Target("target", cfg.L, self.h.out)
        self.tw = TimeoutWrapper("tw", target=self.t, timeout=2 * cfg.L + P(0.75),
                                 on_timeout=lambda e: Event(time=self.tw.now, event_type="timed_out",
                                                            target=self.h.out))
        return [self.t, self.tw]

    def request(self, i, op):
        return _req(self.h, self.tw, i, op)


DRIVERS = [CircuitBreakerDrv, BulkheadDrv, FallbackEntityDrv, FallbackCallableDrv, HedgeDrv, HedgeZeroDelayDrv,
           TimeoutWrapperDrv]

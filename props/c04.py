"""C04 — observing, pausing or stepping a run does not change it.

Engine E3 (program enumeration, the C01 family) + exhaustive enumeration of
*control scripts*: every sequence of control-surface calls up to a length bound
is executed on the real ``Simulation`` and compared with the uninterrupted run
of the same model.

Structure
---------
* a **model** builds a fresh world (real Simulation + harness entities that log
  what they see): the C01 program family, a library pipeline
  (constant Source -> Server -> Sink, explicit end time) and a generator /
  SimFuture model;
* an **observation mode** attaches observers (control surface, event hook, time
  hook, InMemoryTraceRecorder, enable_event_tracing) -- the *mode clause*
  compares every mode's uninterrupted run with the unobserved one;
* a **control script** is a sequence over
  {P pause, S1/S2/S5 step(n), R resume, H pause-from-hook at its k-th event,
   BT/BC/BE/BX/BM add Time/EventCount/EventType/Condition/Metric breakpoint,
   I schedule an event while paused, Z reset()};
  after the script the run is resumed until completion;
* the **reference** for a script is an uninterrupted run of the same model
  with an event hook that records, after every delivery j, what the public
  surface shows (time, type, target, metric value, heap size, harness log
  length); events a script schedules while paused after delivery j are
  scheduled by the reference from its hook after delivery j.

Oracle clauses (each tied to a phrase of the statement):
 * mode-divergence ("attaching ... does not change which events are delivered, their order, their
   times or the resulting component state"): harness log, final component state and summary
   counters of every observed uninterrupted run equal the unobserved run's (fast loop vs
   instrumented loop included);
 * run-divergence ("a run driven by any sequence of pause/step/resume calls ends in the same state
   as an uninterrupted run"): after every returning call the harness log is a prefix of the
   uninterrupted run's; at the end log, component state and summary counters are equal; the
   observers' own logs (event hook, time hook, recorder dequeue spans) equal those of the
   uninterrupted run in the same mode; shape `paused-schedule` when the script scheduled events
   while paused (reference = same events scheduled from a hook at the same point);
 * step-count ("step(n) delivers exactly n events unless the run ends first"): a shorter step is
   excused only when a breakpoint is satisfied at the stopping delivery or a hook requested a pause
   inside it;
 * breakpoint-late ("a breakpoint pauses right after the first delivery that satisfies it"): the
   run never passes the first delivery satisfying an armed breakpoint without being paused there;
 * get_state (anchor "SimulationState snapshots ... after each step"): snapshots at each pause agree
   with the reference at the same events_processed (time, last event, log prefix; heap size and
   primary count only for models in which nothing leaves the heap undelivered);
 * reset ("reset() followed by run() repeats the original delivery sequence for models whose
   entities are stateless"): Z anywhere in a script on stateless programs.
Silent on: where pause() takes effect, spurious extra pauses under resume(), one-shot removal as
such, trace-recorder span contents, events_cancelled after reset(), reset() on stateful models,
events scheduled while paused and then reset().
"""
from __future__ import annotations

import signal
import time

from mc.evidence import Run, digest
from mc.harness import Entity, Event, Instant, Simulation, pmap, rotate
from props.c01 import BEH_FULL, BEH_SMALL, KINDS, Ctx, Scripted, programs

import random as _random

import numpy as _np

from happysimulator.components.common import Sink
from happysimulator.components.random_router import RandomRouter
from happysimulator.components.server.server import Server
from happysimulator.core.control.breakpoints import (
    ConditionBreakpoint,
    EventCountBreakpoint,
    EventTypeBreakpoint,
    MetricBreakpoint,
    TimeBreakpoint,
)
from happysimulator.core.event import disable_event_tracing, enable_event_tracing
from happysimulator.core.sim_future import SimFuture, any_of
from happysimulator.distributions.constant import ConstantLatency
from happysimulator.distributions.exponential import ExponentialLatency
from happysimulator.instrumentation.recorder import InMemoryTraceRecorder
from happysimulator.load.event_provider import EventProvider
from happysimulator.load.source import Source

PID = "C04"

MAX_HANDLER_CALLS = 600     # horizon: handler invocations per execution
MAX_RESUMES = 400           # horizon: resume() calls after the script
EXEC_ALARM_S = 300          # backstop: a single execution may never hang the checker (retried once
EXEC_ALARM_RETRY_S = 1500   # with this limit before it is reported: machine load alone never trips it)


class Horizon(Exception):
    """More handler calls than any model can legitimately produce."""


class Hang(Exception):
    """Backstop alarm fired inside one execution."""


def _on_alarm(_sig, _frm):
    raise Hang("execution exceeded the wall-clock backstop")


# ---------------------------------------------------------------------------
# observation modes
# ---------------------------------------------------------------------------
MODES = {
    "nothing": (),
    "control": ("control",),
    "ehook": ("control", "ehook"),
    "thook": ("control", "thook"),
    "recorder": ("recorder",),
    "tracing": ("tracing",),
    "all": ("control", "ehook", "thook", "recorder", "tracing"),
}
MODE_ORDER = ["nothing", "control", "ehook", "thook", "recorder", "tracing", "all"]
INSTRUMENTED = {"control", "ehook", "thook", "recorder", "all"}  # always take the instrumented loop
# modes a script can run under (a script needs the control surface; it is added on top)
SCRIPT_MODES = ["control", "ehook", "thook", "recorder", "tracing", "all"]


class TeeList(list):
    """list that mirrors appends into a shared ordered log (tag, item)."""

    def __init__(self, tag, log):
        super().__init__()
        self.tag = tag
        self.log = log

    def append(self, x):
        list.append(self, x)
        self.log.append((self.tag, x))


# ---------------------------------------------------------------------------
# model 1: the C01 program family
# ---------------------------------------------------------------------------
class Ctx4(Ctx):
    def __init__(self):
        super().__init__()
        self.log = []
        self.deliveries = TeeList("d", self.log)
        self.resumes = TeeList("r", self.log)
        self.calls = 0

    def mk(self, t_ns, target, beh, daemon=False, by=None):
        s = self.seq
        self.seq += 1
        et = "p" if by is None else ("x" if by == -1 else "r")
        ev = Event(time=Instant(t_ns), event_type=et, target=target, daemon=daemon,
                   context={"metadata": {"seq": s, "beh": beh}})
        self.reg[s] = {"cancel_key": None}
        return ev


class Scripted4(Scripted):
    def __init__(self, name, ctx):
        super().__init__(name, ctx)
        self.handled = 0

    def handle_event(self, event):
        c = self.ctx
        c.calls += 1
        if c.calls > MAX_HANDLER_CALLS:
            raise Horizon(self.name)
        self.handled += 1
        return super().handle_event(event)

    @property
    def inflight(self):
        """Generator processes currently sleeping (returns to 0 whenever all have finished)."""
        return len(self.ctx.procs)


HEAP_EXACT_BEH = {"nop", "emit", "gen", "genside", "emitrev"}
STATELESS_BEH = {"nop", "emit", "gen", "genside", "past", "past2", "emitrev"}


class ProgModel:
    family = "prog"
    tick = 1
    cond_target = "B"
    metric_bp = ("A", "handled", "ge", 2)
    metric0_bp = ("A", "inflight")
    params = {"A": {"H": 1, "BT": 1, "BC": 2, "BE": "r", "I": 0},
              "B": {"H": 2, "BT": 2, "BC": 3, "BE": "p", "I": 1}}

    def __init__(self, program, end_ns):
        self.program = program
        self.end_ns = end_ns
        self.key = ("prog", program, end_ns)
        self.spec = ("prog", program, end_ns)
        behs_ok = all(b[0] in STATELESS_BEH for (_t, _ti, _k, b) in program)
        self.heap_exact = all(k in ("plain", "daemon") and b[0] in HEAP_EXACT_BEH for (_t, _ti, k, b) in program)
        self.stateless = behs_ok and all(k in ("plain", "daemon") for (_t, _ti, k, _b) in program)
        # stateless entities, but some pre-run event was cancelled before run(): kept apart (own shape class)
        self.precancelled = behs_ok and not self.stateless
        # cancellations made by model code DURING the run are model behaviour and happen again on replay.
        # The harness' cancel behaviour holds the ORIGINAL event object, so such a program repeats its
        # delivery sequence after reset() exactly when every cancel was a no-op in the original run
        # (its target had already been delivered, is the cancelling event itself, or does not exist).
        self.cancel_safe = False
        if (not behs_ok and all(k in ("plain", "daemon") for (_t, _ti, k, _b) in program)
                and all(b[0] in STATELESS_BEH or b[0] == "cancel" for (_t, _ti, _k, b) in program)):
            self.cancel_safe = _cancels_are_noops(self)
            self.stateless = self.cancel_safe

    def build(self, recorder=None):
        return ProgWorld(self, recorder)


def _cancels_are_noops(model):
    w = ProgWorld(model, None)
    w.sim.run()
    c = w.c
    order = {d[0]: i for i, d in enumerate(c.deliveries)}
    for seq in range(len(model.program)):
        ck = c.reg[seq]["cancel_key"]
        if ck is None:
            continue
        by = ck[1]
        if seq != by and not (seq in order and order[seq] < order.get(by, -1)):
            return False
    return True


class ProgWorld:
    def __init__(self, model, recorder):
        self.model = model
        c = self.c = Ctx4()
        a, b = Scripted4("A", c), Scripted4("B", c)
        c.ents = [a, b]
        kw = {}
        if model.end_ns is not None:
            kw["end_time"] = Instant(model.end_ns)
        if recorder is not None:
            kw["trace_recorder"] = recorder
        self.recorder = recorder
        self.sim = Simulation(entities=[a, b], **kw)
        evs = []
        for (t, ti, kind, beh) in model.program:
            ev = c.mk(t, c.ents[ti], beh, daemon=(kind == "daemon"))
            if kind == "cancelled":
                ev.cancel()
            evs.append(ev)
        self.sim.schedule(evs)
        c.pre = evs
        self.log = c.log
        self.start_ns = 0
        self.tick = 1

    def nlog(self):
        return len(self.log)

    def metric(self):
        return self.c.ents[0].handled

    def metric0(self):
        return self.c.ents[0].inflight

    def obs(self):
        a, b = self.c.ents
        return (tuple(self.log), a.handled, b.handled, bool(a._crashed), bool(b._crashed))

    def inject(self, t_ns, idx, d):
        beh = ("nop",) if d == 0 else ("emit", 0, 1, False)
        return self.c.mk(t_ns, self.c.ents[0], beh, by=-1)

    def reset_epoch(self):
        c = self.c
        c.seq = len(self.model.program)
        del c.log[:]
        list.clear(c.deliveries)
        list.clear(c.resumes)
        del c.clock_obs[:]
        del c.toggles[:]
        c.procs.clear()
        for extra in ("proc_due", "futs", "bad_values"):
            x = getattr(c, extra, None)
            if x is not None:
                x.clear()
        c.calls = 0
        for e in c.ents:
            e.handled = 0


# ---------------------------------------------------------------------------
# model 2: library pipeline  Source.constant -> Server -> Sink, explicit end
# ---------------------------------------------------------------------------
class LogProvider(EventProvider):
    def __init__(self, w, target):
        self.w = w
        self.target = target
        self.n = 0

    def get_events(self, time):
        w = self.w
        w.guard()
        self.n += 1
        w.log.append(("gen", time.nanoseconds, self.n))
        return [Event(time=time, event_type="Request", target=self.target,
                      context={"metadata": {"request_id": self.n}})]


class LogServer(Server):
    def __init__(self, name, w, **kw):
        super().__init__(name, **kw)
        self.w = w

    def handle_queued_event(self, event):
        w = self.w
        w.guard()
        rid = event.context["metadata"].get("request_id")
        w.log.append(("svc-start", self.now.nanoseconds, rid))
        result = yield from super().handle_queued_event(event)
        w.log.append(("svc-end", self.now.nanoseconds, rid))
        return result


class LogSink(Sink):
    def __init__(self, name, w):
        super().__init__(name)
        self.w = w

    def handle_event(self, event):
        w = self.w
        w.guard()
        w.log.append(("sink", self.now.nanoseconds, event.event_type,
                      event.context["metadata"].get("request_id")))
        return super().handle_event(event)


class PipeModel:
    family = "pipe"
    tick = 125_000_000
    cond_target = "Sink"
    metric_bp = ("Sink", "events_received", "ge", 2)
    metric0_bp = ("Srv", "active_requests")
    stateless = False
    precancelled = False
    heap_exact = True
    params = {"A": {"H": 3, "BT": 625_000_000, "BC": 7, "BE": "Request", "I": 0},
              "B": {"H": 1, "BT": 1_000_000_000, "BC": 12, "BE": "QUEUE_POLL", "I": 1}}

    def __init__(self, rate, svc, end_s):
        self.variant = (rate, svc, end_s)
        self.key = ("pipe", rate, svc, end_s)
        self.spec = self.key

    def build(self, recorder=None):
        return PipeWorld(self, recorder)


class PipeWorld:
    def __init__(self, model, recorder):
        self.model = model
        rate, svc, end_s = model.variant
        self.log = []
        self.calls = 0
        self.recorder = recorder
        self.sink = LogSink("Sink", self)
        self.srv = LogServer("Srv", self, concurrency=1, service_time=ConstantLatency(svc),
                             downstream=self.sink)
        self.src = Source.constant(rate=rate, name="Src", event_provider=LogProvider(self, self.srv))
        kw = {}
        if recorder is not None:
            kw["trace_recorder"] = recorder
        self.sim = Simulation(end_time=Instant.from_seconds(end_s), sources=[self.src],
                              entities=[self.srv, self.sink], **kw)
        self.start_ns = 0
        self.tick = model.tick

    def guard(self):
        self.calls += 1
        if self.calls > MAX_HANDLER_CALLS:
            raise Horizon("pipeline")

    def nlog(self):
        return len(self.log)

    def metric(self):
        return self.sink.events_received

    def metric0(self):
        return self.srv.active_requests

    def obs(self):
        st = self.srv.stats
        return (tuple(self.log), self.sink.events_received,
                tuple(t.nanoseconds for t in self.sink.completion_times),
                tuple(self.sink.latencies_s),
                (st.requests_completed, st.requests_rejected, st.total_service_time),
                self.src.generated_count, self.srv.active_requests)

    def inject(self, t_ns, idx, d):
        return Event(time=Instant(t_ns), event_type="Request", target=self.srv,
                     context={"metadata": {"request_id": 900 + idx}})

    def reset_epoch(self):  # pragma: no cover - pipeline entities are stateful, Z never offered
        raise AssertionError("reset is not explored on stateful models")


# ---------------------------------------------------------------------------
# model 2b: stochastic pipeline driven by the process-wide RNG streams
#   Source.poisson (numpy's global RNG) -> RandomRouter (random.randint) -> two Servers with
#   ExponentialLatency service (random.expovariate) -> Sink.  Both streams are seeded by the harness
#   immediately before the model is built, so every draw a control call, hook registration or
#   breakpoint insertion would take from them shifts the rest of the run.
# ---------------------------------------------------------------------------
class RandModel:
    family = "rand"
    tick = 125_000_000
    cond_target = "Sink"
    metric_bp = ("Sink", "events_received", "ge", 2)
    metric0_bp = ("Srv0", "active_requests")
    stateless = False
    precancelled = False
    heap_exact = True
    params = {"A": {"H": 3, "BT": 500_000_000, "BC": 7, "BE": "Request", "I": 0},
              "B": {"H": 1, "BT": 1_000_000_000, "BC": 12, "BE": "QUEUE_POLL", "I": 1}}

    def __init__(self, seed, rate, mean_svc, end_s):
        self.variant = (seed, rate, mean_svc, end_s)
        self.key = ("rand", seed, rate, mean_svc, end_s)
        self.spec = self.key

    def build(self, recorder=None):
        return RandWorld(self, recorder)


class RandWorld(PipeWorld):
    def __init__(self, model, recorder):  # noqa: D401 - same observation surface as PipeWorld
        self.model = model
        seed, rate, mean_svc, end_s = model.variant
        _random.seed(seed)          # the environment's RNG answers are owned: seeded right before the build
        _np.random.seed(seed)
        self.log = []
        self.calls = 0
        self.recorder = recorder
        self.sink = LogSink("Sink", self)
        self.srvs = [LogServer(f"Srv{i}", self, concurrency=1, service_time=ExponentialLatency(mean_svc),
                               downstream=self.sink) for i in range(2)]
        self.srv = self.srvs[0]
        self.router = RandomRouter("Router", targets=self.srvs)
        self.src = Source.poisson(rate=rate, name="Src", event_provider=LogProvider(self, self.router))
        kw = {}
        if recorder is not None:
            kw["trace_recorder"] = recorder
        self.sim = Simulation(end_time=Instant.from_seconds(end_s), sources=[self.src],
                              entities=[self.router, *self.srvs, self.sink], **kw)
        self.start_ns = 0
        self.tick = model.tick

    def obs(self):
        sts = tuple((s.stats.requests_completed, s.stats.requests_rejected, s.stats.total_service_time,
                     s.active_requests) for s in self.srvs)
        return (tuple(self.log), self.sink.events_received,
                tuple(t.nanoseconds for t in self.sink.completion_times), tuple(self.sink.latencies_s),
                sts, self.src.generated_count, self.router.stats_routed,
                tuple(sorted(self.router.target_counts.items())))

    def inject(self, t_ns, idx, d):
        return Event(time=Instant(t_ns), event_type="Request", target=self.router,
                     context={"metadata": {"request_id": 900 + idx}})


# ---------------------------------------------------------------------------
# model 3: generator processes parked on SimFutures (request/response + any_of race)
# ---------------------------------------------------------------------------
GTICK = 1_953_125  # 2**-9 s in ns: every delay below is exact in float seconds


class GBase(Entity):
    def __init__(self, name, w):
        super().__init__(name)
        self.w = w


class GClient(GBase):
    def handle_event(self, event):
        w = self.w
        w.guard()
        md = event.context["metadata"]
        w.log.append(("dlv", self.now.nanoseconds, self.name, event.event_type, md.get("tag")))
        if event.event_type == "go":
            return self._proc(md)
        return None

    def _proc(self, md):
        w = self.w
        me = self.name
        yield md["d0"] / 512.0
        f = SimFuture()
        yield 0.0, [Event(time=self.now, event_type="req", target=w.worker,
                          context={"metadata": {"fut": f, "work": md["w1"], "tag": me + ".1"}})]
        v = yield f
        w.log.append(("got", self.now.nanoseconds, me, v))
        t, r = SimFuture(), SimFuture()
        now = self.now
        yield 0.0, [Event(time=Instant(now.nanoseconds + md["to"] * GTICK), event_type="timeout",
                          target=w.timer, context={"metadata": {"fut": t, "tag": me + ".t"}}),
                    Event(time=now, event_type="req", target=w.worker,
                          context={"metadata": {"fut": r, "work": md["w2"], "tag": me + ".2"}})]
        idx, val = yield any_of(t, r)
        w.log.append(("race", self.now.nanoseconds, me, idx, val))
        return [Event(time=self.now, event_type="done", target=w.sink,
                      context={"metadata": {"tag": me}})]


class GWorker(GBase):
    def handle_event(self, event):
        w = self.w
        w.guard()
        md = event.context["metadata"]
        w.log.append(("dlv", self.now.nanoseconds, self.name, event.event_type, md.get("tag")))
        return self._serve(md)

    busy = 0

    def _serve(self, md):
        self.busy += 1
        yield md["work"] / 512.0
        self.busy -= 1
        self.w.log.append(("served", self.now.nanoseconds, md["tag"]))
        md["fut"].resolve(("ok", md["tag"]))
        return None


class GTimer(GBase):
    def handle_event(self, event):
        w = self.w
        w.guard()
        md = event.context["metadata"]
        w.log.append(("dlv", self.now.nanoseconds, self.name, event.event_type, md.get("tag")))
        md["fut"].resolve("timeout")
        return None


class GSink(GBase):
    def __init__(self, name, w):
        super().__init__(name, w)
        self.count = 0

    def handle_event(self, event):
        w = self.w
        w.guard()
        self.count += 1
        w.log.append(("dlv", self.now.nanoseconds, self.name, event.event_type,
                      event.context["metadata"].get("tag")))
        return None


class GenFutModel:
    family = "genfut"
    tick = GTICK
    cond_target = "W"
    metric_bp = ("K", "count", "ge", 1)
    metric0_bp = ("W", "busy")
    stateless = False
    precancelled = False
    heap_exact = True
    params = {"A": {"H": 2, "BT": 3 * GTICK, "BC": 4, "BE": "req", "I": 0},
              "B": {"H": 1, "BT": 5 * GTICK, "BC": 7, "BE": "timeout", "I": 2}}

    def __init__(self, clients, end_ticks):
        # clients: tuple of (start_tick, d0, w1, w2, to)
        self.clients = clients
        self.end_ticks = end_ticks
        self.key = ("genfut", clients, end_ticks)
        self.spec = self.key

    def build(self, recorder=None):
        return GenFutWorld(self, recorder)


class GenFutWorld:
    def __init__(self, model, recorder):
        self.model = model
        self.log = []
        self.calls = 0
        self.recorder = recorder
        self.worker = GWorker("W", self)
        self.timer = GTimer("T", self)
        self.sink = GSink("K", self)
        self.cl = [GClient(f"C{i}", self) for i in range(len(model.clients) + 1)]
        kw = {}
        if model.end_ticks is not None:
            kw["end_time"] = Instant(model.end_ticks * GTICK)
        if recorder is not None:
            kw["trace_recorder"] = recorder
        self.sim = Simulation(entities=[self.worker, self.timer, self.sink, *self.cl], **kw)
        evs = []
        for i, (st, d0, w1, w2, to) in enumerate(model.clients):
            evs.append(Event(time=Instant(st * GTICK), event_type="go", target=self.cl[i],
                             context={"metadata": {"d0": d0, "w1": w1, "w2": w2, "to": to, "tag": f"go{i}"}}))
        self.sim.schedule(evs)
        self.start_ns = 0
        self.tick = GTICK

    def guard(self):
        self.calls += 1
        if self.calls > MAX_HANDLER_CALLS:
            raise Horizon("genfut")

    def nlog(self):
        return len(self.log)

    def metric(self):
        return self.sink.count

    def metric0(self):
        return self.worker.busy

    def obs(self):
        return (tuple(self.log), self.sink.count)

    def inject(self, t_ns, idx, d):
        # a whole new process started from a paused schedule() call (spare client entity)
        return Event(time=Instant(t_ns), event_type="go", target=self.cl[-1],
                     context={"metadata": {"d0": 0, "w1": 1, "w2": 1, "to": 2, "tag": f"inj{idx}"}})

    def reset_epoch(self):  # pragma: no cover
        raise AssertionError("reset is not explored on stateful models")


def make_model(spec):
    if spec[0] == "prog":
        return ProgModel(_thaw(spec[1]), spec[2])
    if spec[0] == "pipe":
        return PipeModel(spec[1], spec[2], spec[3])
    if spec[0] == "genfut":
        return GenFutModel(_thaw(spec[1]), spec[2])
    if spec[0] == "rand":
        return RandModel(spec[1], spec[2], spec[3], spec[4])
    raise AssertionError(spec)


def _thaw(x):
    return tuple(_thaw(i) for i in x) if isinstance(x, (list, tuple)) else x


# ---------------------------------------------------------------------------
# running a world
# ---------------------------------------------------------------------------
def attach(w, flags):
    sim = w.sim
    w.elog = None
    w.tlog = None
    if "control" in flags:
        ctl = sim.control
        if "ehook" in flags:
            el = w.elog = []
            ctl.on_event(lambda e: el.append((e.time.nanoseconds, e.event_type, getattr(e.target, "name", None))))
        if "thook" in flags:
            tl = w.tlog = []
            ctl.on_time_advance(lambda t: tl.append(t.nanoseconds))
    if "tracing" in flags:
        enable_event_tracing()


def dequeue_spans(rec):
    if rec is None:
        return None
    try:
        return [(s["time"].nanoseconds, s.get("event_type")) for s in rec.spans
                if s.get("kind") == "simulation.dequeue"]
    except Exception:  # a refactor of the span layout must not trip the check
        return None


class Plain:
    """Result of one uninterrupted execution."""
    __slots__ = ("obs", "total", "cancelled", "duration", "elog", "tlog", "dq", "error", "log")


def _run_plain(model, mode, limit):
    flags = MODES[mode]
    rec = InMemoryTraceRecorder() if "recorder" in flags else None
    w = model.build(rec)
    p = Plain()
    p.error = None
    signal.alarm(limit)
    try:
        attach(w, flags)
        s = w.sim.run()
        p.total, p.cancelled, p.duration = s.total_events_processed, s.events_cancelled, s.duration_s
    except (Horizon, Hang) as e:
        p.error = (type(e).__name__, str(e))
        p.total = p.cancelled = p.duration = None
    finally:
        signal.alarm(0)
        disable_event_tracing()
    p.obs = w.obs()
    p.log = list(w.log)
    p.elog, p.tlog, p.dq = w.elog, w.tlog, dequeue_spans(rec)
    return p


class Ref:
    __slots__ = ("D", "N", "obs", "log", "total", "cancelled", "duration", "error")


def _run_reference(model, plan, limit):
    """Uninterrupted run with an event hook recording the public surface after every
    delivery; ``plan`` = ((pos, d, idx), ...) events to schedule right after delivery pos."""
    w = model.build(None)
    sim = w.sim
    ctl = sim.control
    byp = {}
    for (pos, d, idx) in plan:
        byp.setdefault(pos, []).append((d, idx))
    st = ctl.get_state()
    D = [(w.start_ns, None, None, w.metric(), st.heap_size, st.primary_events_remaining, w.nlog(), w.metric0())]
    tick = w.tick
    for (d, idx) in byp.get(0, ()):
        sim.schedule(w.inject(w.start_ns + d * tick, idx, d))

    def hook(ev):
        j = len(D)
        s2 = ctl.get_state()
        t = ev.time.nanoseconds
        D.append((t, ev.event_type, getattr(ev.target, "name", None), w.metric(),
                  s2.heap_size, s2.primary_events_remaining, w.nlog(), w.metric0()))
        for (d, idx) in byp.get(j, ()):
            sim.schedule(w.inject(t + d * tick, idx, d))

    ctl.on_event(hook)
    r = Ref()
    r.error = None
    signal.alarm(limit)
    try:
        s = sim.run()
        r.total, r.cancelled, r.duration = s.total_events_processed, s.events_cancelled, s.duration_s
    except (Horizon, Hang) as e:
        r.error = (type(e).__name__, str(e))
        r.total = r.cancelled = r.duration = None
    finally:
        signal.alarm(0)
    r.D = D
    r.N = len(D) - 1
    r.obs = w.obs()
    r.log = list(w.log)
    return r


def _retrying(fn, *args):
    """A wall-clock backstop must never turn machine load into a verdict: retry once, much longer."""
    r = fn(*args, EXEC_ALARM_S)
    if r.error is not None and r.error[0] == "Hang":
        r = fn(*args, EXEC_ALARM_RETRY_S)
    return r


def run_plain(model, mode):
    return _retrying(_run_plain, model, mode)


def run_reference(model, plan):
    return _retrying(_run_reference, model, plan)


def run_script(model, mode, script):
    return _retrying(_run_script, model, mode, script)


class Cache:
    """Per-model memo of uninterrupted runs (one model at a time per worker)."""

    def __init__(self):
        self.key = None
        self.refs = {}
        self.plains = {}

    def _sel(self, model):
        if self.key != model.key:
            self.key = model.key
            self.refs = {}
            self.plains = {}

    def ref(self, model, plan):
        self._sel(model)
        r = self.refs.get(plan)
        if r is None:
            if len(self.refs) > 4000:
                self.refs.clear()
            r = self.refs[plan] = run_reference(model, plan)
        return r

    def plain(self, model, mode):
        self._sel(model)
        r = self.plains.get(mode)
        if r is None:
            r = self.plains[mode] = run_plain(model, mode)
        return r


CACHE = Cache()


# ---------------------------------------------------------------------------
# control scripts
# ---------------------------------------------------------------------------
def core_alphabet(model, pset):
    P = model.params[pset]
    return [("P",), ("S", 1), ("S", 2), ("S", 5), ("R",), ("H", P["H"]), ("BT", P["BT"]),
            ("BC", P["BC"]), ("BE", P["BE"]), ("BX",), ("BM",), ("I", P["I"])]


def ext_alphabet(model, with_reset):
    a = core_alphabet(model, "A")
    for op in core_alphabet(model, "B"):
        if op not in a:
            a.append(op)
    a.append(("BM1",))   # one-shot metric breakpoint
    a.append(("BE1", model.params["A"]["BE"]))  # one-shot event-type breakpoint
    a.append(("BZ", "eq", 0, False))   # metric breakpoints satisfied at a falsy value
    a.append(("BZ", "le", 0, True))
    if with_reset:
        a.append(("Z",))
    return a


def alphabet_of(model, aid):
    if aid in ("A", "B"):
        return core_alphabet(model, aid)
    if aid == "ext":
        return ext_alphabet(model, False)
    if aid == "extZ":
        return ext_alphabet(model, True)
    if aid == "rst":  # reset-focused
        P = model.params["A"]
        return [("P",), ("S", 1), ("S", 2), ("R",), ("H", 1), ("BC", P["BC"]), ("BM",), ("I", 0), ("Z",)]
    if aid == "insp":  # inspection / removal calls and metric breakpoints that hold at value 0
        P = model.params["A"]
        return [("S", 1), ("S", 2), ("R",), ("H", 1), ("BC", P["BC"]), ("BM",),
                ("BZ", "eq", 0, False), ("BZ", "lt", 1, False), ("BZ", "le", 0, True), ("BZ", "ge", 0, True),
                ("K", 1), ("K", 3), ("F",), ("G",), ("L",), ("XB",), ("XH",), ("XC",)]
    if aid == "pause":  # no breakpoints, no injection: pure pause / step / resume
        return [("P",), ("S", 1), ("S", 2), ("S", 5), ("R",), ("H", 1), ("H", 2), ("H", 3)]
    raise AssertionError(aid)


BP_KINDS = ("BT", "BC", "BE", "BX", "BM", "BM1", "BE1", "BZ")
_OPS = {"eq": lambda a, b: a == b, "lt": lambda a, b: a < b, "le": lambda a, b: a <= b, "ge": lambda a, b: a >= b}
BP_NAME = {"BT": "TimeBreakpoint", "BC": "EventCountBreakpoint", "BE": "EventTypeBreakpoint",
           "BX": "ConditionBreakpoint", "BM": "MetricBreakpoint", "BM1": "MetricBreakpoint",
           "BE1": "EventTypeBreakpoint", "BZ": "MetricBreakpoint-at-zero"}


def make_breakpoint(model, op):
    k = op[0]
    if k == "BT":
        return TimeBreakpoint(Instant(op[1])), True
    if k == "BC":
        return EventCountBreakpoint(op[1]), True
    if k == "BE":
        return EventTypeBreakpoint(op[1]), False
    if k == "BE1":
        return EventTypeBreakpoint(op[1], one_shot=True), True
    if k == "BX":
        tgt = model.cond_target
        return ConditionBreakpoint(lambda c: getattr(c.last_event.target, "name", None) == tgt,
                                   description="target==" + tgt), False
    if k in ("BM", "BM1"):
        e, a, o, th = model.metric_bp
        return MetricBreakpoint(e, a, o, th, one_shot=(k == "BM1")), k == "BM1"
    if k == "BZ":
        e, a = model.metric0_bp
        return MetricBreakpoint(e, a, op[1], op[2], one_shot=op[3]), op[3]
    raise AssertionError(op)


def bp_pred(model, op, j, Dj):
    """Reference evaluation of a breakpoint on the state right after delivery j."""
    k = op[0]
    if k == "BT":
        return Dj[0] >= op[1]
    if k == "BC":
        return j >= op[1]
    if k in ("BE", "BE1"):
        return Dj[1] == op[1]
    if k == "BX":
        return Dj[2] == model.cond_target
    if k in ("BM", "BM1"):
        return Dj[3] is not None and Dj[3] >= model.metric_bp[3]
    if k == "BZ":
        return Dj[7] is not None and _OPS[op[1]](Dj[7], op[2])
    raise AssertionError(op)


class Exec:
    """Applies a control script to a freshly built world, recording what every
    run()/step()/resume() call returned (through get_state() and the summary)."""

    def __init__(self, w, model):
        self.w = w
        self.model = model
        self.sim = w.sim
        self.ctl = w.sim.control
        self.phase = "new"
        self.pos = 0
        self.items = []
        self.done_segs = []
        self.ninj = 0
        self.nres = 0
        self.nbp = 0
        self.bp_ids = []
        self.hook_ids = []
        self.error = None
        self.cur_op = None
        self.phase_after_script = None
        self.last_summary = None

    def _ret(self, kind, n, summary):
        st = self.ctl.get_state()
        q = st.events_processed
        if st.is_paused and st.is_running:
            phase = "paused"
        elif not st.is_running and not st.is_paused:
            phase = "done"
        else:
            phase = "bad"
        le = st.last_event
        cur = st.current_time
        self.items.append(("adv", (kind, n, self.pos, q, phase, cur.nanoseconds,
                                   le.event_type if le is not None else None,
                                   getattr(le.target, "name", None) if le is not None else None,
                                   st.heap_size, st.primary_events_remaining, self.w.nlog(),
                                   summary.total_events_processed)))
        self.pos = q
        self.phase = phase
        self.last_summary = summary

    def _start_paused(self):
        self.ctl.pause()
        self._ret("start", None, self.sim.run())

    def apply(self, op):
        k = op[0]
        self.cur_op = k
        if self.phase == "bad" or (self.phase == "done" and k != "Z"):
            return False
        ctl = self.ctl
        if k == "P":
            ctl.pause()
        elif k == "R":
            if self.phase == "new":
                self._ret("run", None, self.sim.run())
            else:
                self._ret("R", None, ctl.resume())
        elif k == "S":
            if self.phase == "new":
                self._start_paused()
            if self.phase == "paused":
                self._ret("S", op[1], ctl.step(op[1]))
        elif k == "I":
            if self.phase == "new":
                self._start_paused()
            if self.phase == "paused":
                now = ctl.get_state().current_time.nanoseconds
                idx = self.ninj
                self.ninj += 1
                self.sim.schedule(self.w.inject(now + op[1] * self.w.tick, idx, op[1]))
                self.items.append(("inj", self.pos, op[1], idx))
        elif k == "H":
            h = [op[1], 0]
            items_ref = self

            def cb(_ev, h=h):
                h[1] += 1
                if h[1] == h[0]:
                    ctl.pause()
                    items_ref.items.append(("fire", ctl.get_state().events_processed))

            self.hook_ids.append(ctl.on_event(cb))
        elif k in BP_KINDS:
            bp, one = make_breakpoint(self.model, op)
            bid = ctl.add_breakpoint(bp)
            self.nbp += 1
            self.bp_ids.append((bid, self.nbp))
            self.items.append(("arm", (op, one, self.nbp)))
        elif k == "K" or k == "F":
            # read-only heap inspection (only available while paused)
            if self.phase == "new":
                self._start_paused()
            if self.phase == "paused":
                if k == "K":
                    ctl.peek_next(op[1])
                else:
                    ctl.find_events(lambda e: not e.daemon)
        elif k == "G":
            ctl.get_state()
        elif k == "L":
            ctl.list_breakpoints()
        elif k == "XB":
            # remove the most recently added breakpoint that is still registered (public listing)
            live = {i for i, _bp in ctl.list_breakpoints()}
            for n in range(len(self.bp_ids) - 1, -1, -1):
                bid, uid = self.bp_ids[n]
                if bid in live:
                    ctl.remove_breakpoint(bid)
                    del self.bp_ids[n]
                    self.items.append(("disarm", uid))
                    break
        elif k == "XH":
            if self.hook_ids:
                ctl.remove_hook(self.hook_ids.pop())
        elif k == "XC":
            ctl.clear_breakpoints()
            self.bp_ids = []
            self.items.append(("disarm", None))
        elif k == "Z":
            ctl.reset()
            self.done_segs.append((self.items, list(self.w.log)))
            self.items = []
            self.w.reset_epoch()
            self.phase = "new"
            self.pos = 0
        else:
            raise AssertionError(op)
        return True

    def finish(self):
        self.cur_op = "finish"
        if self.phase == "new":
            self._ret("run", None, self.sim.run())
        while self.phase == "paused":
            self.nres += 1
            if self.nres > MAX_RESUMES:
                self.error = ("no-termination", f"still paused after {MAX_RESUMES} resume() calls")
                return
            self._ret("R", None, self.ctl.resume())


def _run_script(model, mode, script, limit):
    flags = set(MODES[mode]) | {"control"}
    rec = InMemoryTraceRecorder() if "recorder" in flags else None
    w = model.build(rec)
    ex = None
    signal.alarm(limit)
    try:
        attach(w, flags)
        ex = Exec(w, model)
        for op in script:
            ex.apply(op)
        ex.phase_after_script = ex.phase
        ex.finish()
    except Exception as e:  # noqa: BLE001 - any library exception under a legal script is an outcome
        if ex is None:
            raise
        ex.error = (type(e).__name__, str(e)[:200])
        if ex.phase_after_script is None:
            ex.phase_after_script = "error"
    finally:
        signal.alarm(0)
        disable_event_tracing()
    ex.dq = dequeue_spans(rec)
    return ex


OPNAME = {"start": "pause-before-run", "run": "run", "R": "resume", "S": "step"}


def judge(model, mode, script, ex, cache=CACHE):
    """Post-hoc oracle.  Returns (violations [(fp, desc)], nontrivial, outcome_key)."""
    out = []
    fam = model.family
    w = ex.w
    segs = ex.done_segs + [(ex.items, w.log)]
    nseg = len(segs)
    if ex.error is not None:
        out.append((f"SimulationControl/exception/{ex.error[0]}/{fam}",
                    f"script {script} in mode {mode}: {ex.error[0]}: {ex.error[1]} during op {ex.cur_op}"))
        return out, False, ("error", ex.error[0])
    armed = []  # [(op, one_shot)] persists across reset() (the library keeps breakpoints)
    nontrivial = False
    positions = []
    diverged = False
    for si, (items, log) in enumerate(segs):
        final = si == nseg - 1
        plan = tuple((it[1], it[2], it[3]) for it in items if it[0] == "inj")
        ref = cache.ref(model, plan)
        if ref.error is not None:
            out.append((f"Simulation/reference-horizon/{fam}", f"reference run hit the horizon: {ref.error}"))
            return out, False, ("ref-error",)
        D, N = ref.D, ref.N
        rlog = ref.log
        fires = [it[1] for it in items if it[0] == "fire"]
        lastn = 0
        injected = False
        clause = "reset" if si > 0 else "run-divergence"
        rshape = ("pre-cancelled-event" if model.precancelled else
                  "cancelled-after-delivery" if getattr(model, "cancel_safe", False) else "stateless")
        for it in items:
            tag = it[0]
            if tag == "arm":
                armed.append(it[1])
                continue
            if tag == "disarm":
                armed = [] if it[1] is None else [a for a in armed if a[2] != it[1]]
                continue
            if tag == "inj":
                injected = True
                continue
            if tag != "adv":
                continue
            kind, n, p, q, phase, cur, lt, ltgt, heap, prim, nlog, tot = it[1]
            positions.append((kind, q, phase))
            opn = OPNAME[kind]
            if phase == "bad":
                out.append((f"SimulationControl/get_state/flags/{fam}",
                            f"after {opn} the state is neither paused nor complete (script {script})"))
                diverged = True
                break
            if phase == "paused" and (0 < q or p < q):
                nontrivial = True
            # -- delivery log prefix produced so far equals the uninterrupted run's prefix
            if log[lastn:nlog] != rlog[lastn:nlog] or q > N:
                shape = rshape if si > 0 else ("paused-schedule" if injected else "after-" + opn)
                out.append((f"SimulationControl/{clause}/delivery-log/{shape}/{fam}",
                            f"mode {mode}, script {script}: after {opn} (events_processed {p}->{q}) the harness log "
                            f"{log[lastn:nlog][:6]} differs from the uninterrupted run's {rlog[lastn:nlog][:6]}"))
                diverged = True
                break
            lastn = nlog
            rv = []   # violations of this return that rely on the reference D
            # -- get_state() consistent with the log prefix
            if tot != q:
                out.append((f"SimulationControl/get_state/events_processed-vs-summary/{fam}",
                            f"script {script}: get_state().events_processed={q} but returned summary says {tot}"))
            if phase == "paused":
                Dq = D[q]
                if cur != Dq[0]:
                    rv.append((f"SimulationControl/get_state/current_time/{fam}",
                               f"script {script}: paused after {q} events at {cur}ns, delivery {q} happened at {Dq[0]}ns"))
                if (lt, ltgt) != (Dq[1], Dq[2]):
                    rv.append((f"SimulationControl/get_state/last_event/{fam}",
                               f"script {script}: paused after {q} events, last_event=({lt},{ltgt}) expected ({Dq[1]},{Dq[2]})"))
                if model.heap_exact:
                    # only where nothing can leave the heap without being delivered (no cancellation,
                    # no stale event): how lazily such entries are purged is not the statement's business
                    if heap != Dq[4]:
                        rv.append((f"SimulationControl/get_state/heap_size/{fam}",
                                   f"script {script}: paused after {q} events, heap_size={heap}, uninterrupted run had {Dq[4]} pending there"))
                    if prim != Dq[5]:
                        rv.append((f"SimulationControl/get_state/primary_events_remaining/{fam}",
                                   f"script {script}: paused after {q} events, primary_events_remaining={prim}, expected {Dq[5]}"))
                if nlog != Dq[6]:
                    rv.append((f"SimulationControl/get_state/log-prefix/{fam}",
                               f"script {script}: paused with events_processed={q} but {nlog} harness log entries "
                               f"(uninterrupted run had {Dq[6]} at that count)"))
            elif q != N:
                rv.append((f"SimulationControl/{clause}/events-processed/{('after-' + opn) if si == 0 else rshape}/{fam}",
                           f"mode {mode}, script {script}: run completed after {q} events, uninterrupted run processed {N}"))
                diverged = True
            # -- breakpoints: never pass the first satisfying delivery without pausing right after it
            hit_at_q = False
            if not diverged:
                for (bop, _one, _uid) in armed:
                    for j in range(p + 1, q + 1):
                        if bp_pred(model, bop, j, D[j]):
                            if j < q:
                                rv.append((f"SimulationControl/breakpoint-late/{BP_NAME[bop[0]]}/{fam}",
                                           f"mode {mode}, script {script}: {bop} first satisfied by delivery {j} "
                                           f"{D[j][:3]} but {opn} ran on to events_processed={q}"))
                            else:
                                hit_at_q = True
                            break
                if q > p:
                    armed = [a for a in armed if not (a[1] and bp_pred(model, a[0], q, D[q]))]
            # -- step(n)
            if kind == "S" and not diverged:
                adv = q - p
                if adv > n:
                    out.append((f"SimulationControl/step-count/overrun/{fam}",
                                f"mode {mode}, script {script}: step({n}) from {p} advanced events_processed to {q}"))
                elif adv < n and phase == "paused":
                    if not hit_at_q and not any(p < f <= q for f in fires):
                        rv.append((f"SimulationControl/step-count/short/{fam}",
                                   f"mode {mode}, script {script}: step({n}) from {p} paused at {q} with no "
                                   f"breakpoint satisfied and no pause requested"))
            if rv:
                if injected or si > 0:
                    # the reference itself depends on the paused schedule() / reset(): one clause, one fingerprint
                    shape = rshape if si > 0 else "paused-schedule"
                    out.append((f"SimulationControl/{clause}/public-state/{shape}/{fam}",
                                f"mode {mode}, script {script}: after {opn} the run no longer matches the "
                                f"uninterrupted run with the same events scheduled from a hook ({rv[0][1]})"))
                    diverged = True
                else:
                    out.extend(rv)
            if diverged:
                break
        if diverged:
            break
        if not final:
            continue
        # -- final state of the (last) run equals the uninterrupted run's
        if plan:
            tobs, ttot, tcan, tdur = ref.obs, ref.total, ref.cancelled, ref.duration
        else:
            base = cache.plain(model, "nothing")
            tobs, ttot, tcan, tdur = base.obs, base.total, base.cancelled, base.duration
        obs = w.obs()
        shape = rshape if si > 0 else ("paused-schedule" if plan else "final")
        if obs != tobs:
            what = "delivery-log" if obs[0] != tobs[0] else "final-state"
            out.append((f"SimulationControl/{clause}/{what}/{shape}/{fam}",
                        f"mode {mode}, script {script}: final {what} differs from the uninterrupted run: "
                        f"{_first_diff(obs, tobs)}"))
        s = ex.last_summary
        if s is not None and ttot is not None:
            if s.total_events_processed != ttot or s.duration_s != tdur:
                out.append((f"SimulationControl/{clause}/summary-counters/{shape}/{fam}",
                            f"mode {mode}, script {script}: summary (events={s.total_events_processed}, "
                            f"duration={s.duration_s}) vs uninterrupted (events={ttot}, duration={tdur})"))
            elif si == 0 and s.events_cancelled != tcan:
                out.append((f"SimulationControl/{clause}/events-cancelled/{shape}/{fam}",
                            f"mode {mode}, script {script}: events_cancelled={s.events_cancelled}, uninterrupted {tcan}"))
        # -- observers' own logs: same sequence as in the uninterrupted observed run
        if nseg == 1 and not plan:
            pm = cache.plain(model, mode)
            if w.elog is not None and pm.elog is not None and w.elog != pm.elog:
                out.append((f"SimulationControl/run-divergence/event-hook-log/{fam}",
                            f"mode {mode}, script {script}: event hook saw {_first_diff(w.elog, pm.elog)}"))
            if w.tlog is not None and pm.tlog is not None and w.tlog != pm.tlog:
                out.append((f"SimulationControl/run-divergence/time-hook-log/{fam}",
                            f"mode {mode}, script {script}: time hook saw {_first_diff(w.tlog, pm.tlog)}"))
            if ex.dq is not None and pm.dq is not None and ex.dq != pm.dq:
                out.append((f"SimulationControl/run-divergence/recorder-dequeue-spans/{fam}",
                            f"mode {mode}, script {script}: recorder saw {_first_diff(ex.dq, pm.dq)}"))
    return out, nontrivial, tuple(positions)


def _first_diff(a, b):
    if isinstance(a, tuple) and a and isinstance(a[0], tuple) and isinstance(b, tuple) and b and a[0] != b[0]:
        a, b = a[0], b[0]
    if isinstance(a, (list, tuple)) and isinstance(b, (list, tuple)):
        for i, (x, y) in enumerate(zip(a, b)):
            if x != y:
                return f"index {i}: got {x!r}, expected {y!r}"
        return f"lengths {len(a)} vs {len(b)}; tail got {list(a[len(b):])[:3]!r} expected {list(b[len(a):])[:3]!r}"
    return f"got {a!r}, expected {b!r}"


# ---------------------------------------------------------------------------
# mode clause: uninterrupted runs under every observation mode
# ---------------------------------------------------------------------------
def judge_modes(model, cache=CACHE):
    out = []
    fam = model.family
    base = cache.plain(model, "nothing")
    n = 0
    if base.error is not None:
        out.append((f"Simulation/horizon/nothing/{fam}", f"unobserved run of {model.spec} hit the horizon: {base.error}"))
        return out, 1
    res = {"nothing": base}
    per = {}
    for mode in MODE_ORDER[1:]:
        r = res[mode] = cache.plain(model, mode)
        n += 1
        if r.error is not None:
            out.append((f"Simulation/mode-divergence/{mode}/horizon/{fam}", f"{model.spec}: {r.error}"))
            continue
        if r.obs != base.obs:
            what = "delivery-log" if r.obs[0] != base.obs[0] else "final-state"
            per.setdefault(what, []).append((mode, f"model {model.spec}: run observed with '{mode}' differs from "
                                                   f"the unobserved run: {_first_diff(r.obs, base.obs)}"))
        elif (r.total, r.duration) != (base.total, base.duration):
            per.setdefault("summary-counters", []).append(
                (mode, f"model {model.spec}: summary under '{mode}' events={r.total} duration={r.duration}, "
                       f"unobserved events={base.total} duration={base.duration}"))
        elif r.cancelled != base.cancelled:
            per.setdefault("events-cancelled", []).append(
                (mode, f"model {model.spec}: events_cancelled under '{mode}' {r.cancelled}, unobserved {base.cancelled}"))
    for what, lst in per.items():
        if {m for m, _ in lst} >= INSTRUMENTED:
            # every mode that selects the instrumented loop differs the same way: one root cause
            out.append((f"Simulation/mode-divergence/instrumented-loop/{what}/{fam}",
                        lst[0][1] + f" (same for {sorted(m for m, _ in lst)})"))
        else:
            for m, desc in lst:
                out.append((f"Simulation/mode-divergence/{m}/{what}/{fam}", desc))
    e1, e2 = res["ehook"], res["all"]
    if e1.error is None and e2.error is None:
        if e1.elog != e2.elog:
            out.append((f"Simulation/mode-divergence/all/event-hook-log/{fam}",
                        f"model {model.spec}: event hook log differs between 'ehook' and 'all': {_first_diff(e2.elog, e1.elog)}"))
        if base.total is not None and len(e1.elog) != base.total:
            out.append((f"Simulation/mode-divergence/ehook/deliveries-vs-unobserved-count/{fam}",
                        f"model {model.spec}: hook saw {len(e1.elog)} deliveries, unobserved run processed {base.total}"))
        t1, t2 = res["thook"], res["all"]
        if t1.error is None and t1.tlog != t2.tlog:
            out.append((f"Simulation/mode-divergence/all/time-hook-log/{fam}",
                        f"model {model.spec}: time hook log differs between 'thook' and 'all'"))
        r1 = res["recorder"]
        if r1.error is None and r1.dq is not None and e2.dq is not None and r1.dq != e2.dq:
            out.append((f"Simulation/mode-divergence/all/recorder-dequeue-spans/{fam}",
                        f"model {model.spec}: dequeue spans differ between 'recorder' and 'all'"))
    return out, n + 1


# ---------------------------------------------------------------------------
# script-tree exploration
# ---------------------------------------------------------------------------
def subtree_size(a, depth_left):
    return sum(a ** i for i in range(0, depth_left + 1))


class Stats:
    def __init__(self):
        self.exec = 0
        self.trans = 0
        self.nontriv = 0
        self.outcomes = set()
        self.viol = {}
        self.samples = []
        self.pruned = 0
        self.excluded = 0
        self.cpu0 = time.process_time()

    def pack(self):
        return {"cpu": time.process_time() - self.cpu0, "exec": self.exec, "trans": self.trans, "nontriv": self.nontriv, "outcomes": self.outcomes,
                "viol": self.viol, "samples": self.samples, "pruned": self.pruned, "excluded": self.excluded}


def visit(model, mode, script, st, driver, aid):
    ex = run_script(model, mode, script)
    v, nontriv, okey = judge(model, mode, script, ex)
    st.exec += 1
    st.trans += ex.pos if ex.error is None else 0
    for (_items, _log) in ex.done_segs:
        st.trans += sum(1 for it in _items if it[0] == "adv")
    if nontriv:
        st.nontriv += 1
    st.outcomes.add(digest((model.key, okey)))
    for fp, desc in v:
        if fp not in st.viol:
            st.viol[fp] = (desc, {"driver": driver, "model": model.spec, "mode": mode, "script": list(script),
                                  "alphabet": aid})
    if not st.samples and nontriv and len(script) >= 2:
        st.samples.append({"model": model.spec, "mode": mode, "script": list(script), "returns": list(okey)[:8]})
    return ex


def _child_rule(alpha, L, prefix, op, phase_after):
    """None = explore the child; otherwise ('excluded'|'pruned', number of scripts not executed)."""
    left = L - len(prefix) - 1
    if op[0] == "Z" and any(o[0] == "I" for o in prefix):
        return "excluded", subtree_size(len(alpha), left)   # paused-schedule then reset: statement silent
    if phase_after in ("done", "bad", "error") and (op[0] != "Z" or phase_after != "done"):
        return "pruned", subtree_size(len(alpha), left)     # every further call is skipped: same execution
    return None


def dfs(model, mode, alpha, L, prefix, st, driver, aid, stop=None):
    """Visit ``prefix`` and every extension up to length L.  With ``stop`` the recursion ends above
    depth ``stop`` (deeper sub-trees belong to other jobs)."""
    ex = visit(model, mode, prefix, st, driver, aid)
    if len(prefix) >= L:
        return
    for op in alpha:
        rule = _child_rule(alpha, L, prefix, op, ex.phase_after_script)
        if rule is not None:
            if rule[0] == "excluded":
                st.excluded += rule[1]
            else:
                st.pruned += rule[1]
            continue
        if stop is not None and len(prefix) + 1 >= stop:
            continue
        dfs(model, mode, alpha, L, prefix + (op,), st, driver, aid, stop)


def _tree_job(job):
    (driver, specs, modes, aid, L, sub) = job
    signal.signal(signal.SIGALRM, _on_alarm)
    st = Stats()
    for spec in specs:
        model = make_model(spec)
        alpha = alphabet_of(model, aid)
        if aid in ("extZ", "rst") and not (model.stateless or model.precancelled):
            alpha = [o for o in alpha if o[0] != "Z"]
        for mode in modes:
            if sub is None:
                dfs(model, mode, alpha, L, (), st, driver, aid)
            elif sub[0] == "top":
                dfs(model, mode, alpha, L, (), st, driver, aid, stop=sub[1])
            else:
                prefix = tuple(alpha[i] for i in sub[1])
                alive = True
                for k in range(len(prefix)):   # is this sub-tree reached at all? (same rule as dfs)
                    anc = run_script(model, mode, prefix[:k])
                    if _child_rule(alpha, L, prefix[:k], prefix[k], anc.phase_after_script) is not None:
                        alive = False
                        break
                if alive:
                    dfs(model, mode, alpha, L, prefix, st, driver, aid)
    return st.pack()


def _stepper_job(job):
    """Single-step through the whole run, and schedule an event at every pause position."""
    (driver, specs, modes) = job
    signal.signal(signal.SIGALRM, _on_alarm)
    st = Stats()
    for spec in specs:
        model = make_model(spec)
        N = CACHE.ref(model, ()).N
        d2 = model.params["B"]["I"]
        scripts = [(("S", 1),) * (N + 1)]
        for k in range(0, N + 1):
            scripts.append((("S", 1),) * k + (("I", 0),))
            scripts.append((("S", 1),) * k + (("I", d2),) + (("S", 1),) * 2)
            scripts.append((("S", 1),) * k + ((("K", 1), ("F",)) if k % 2 else (("K", 3), ("G",))))
        for mode in modes:
            for sc in scripts:
                visit(model, mode, sc, st, driver, "stepper")
    return st.pack()


def stepper_driver(run, seed, name, specs, modes, bounds, nchunks=128):
    t0 = time.time()
    d = run.driver(name)
    d.bounds.setdefault("parts", []).append(dict(
        bounds, models=len(specs), modes=modes,
        scripts="S1^(N+1); S1^k I(0); S1^k I(d) S1 S1; S1^k peek_next/find_events/get_state for every k in 0..N "
                "(N = deliveries of the model)"))
    jobs = [(name, ch, modes) for ch in chunked(specs, nchunks)]
    res = pmap(_stepper_job, rotate(jobs, seed), ordered=False)
    collect(run, d, res, t0)
    return d


def _mode_job(job):
    (driver, specs) = job
    signal.signal(signal.SIGALRM, _on_alarm)
    st = Stats()
    for spec in specs:
        model = make_model(spec)
        v, n = judge_modes(model)
        st.exec += n
        base = CACHE.plain(model, "nothing")
        st.trans += (base.total or 0) * n
        if base.total and base.total >= 2:
            st.nontriv += n - 1
        st.outcomes.add(digest(base.obs))
        for fp, desc in v:
            if fp not in st.viol:
                st.viol[fp] = (desc, {"driver": driver, "model": model.spec, "modes": True})
        if not st.samples and base.total and base.total >= 4:
            st.samples.append({"model": model.spec, "modes": MODE_ORDER, "events": base.total})
    return st.pack()


def collect(run, d, results, t0):
    outcomes = set()
    pruned = excluded = 0
    for r in results:
        d.executions += r["exec"]
        d.transitions += r["trans"]
        d.nontrivial += r["nontriv"]
        outcomes |= r["outcomes"]
        pruned += r["pruned"]
        excluded += r["excluded"]
        d.extra["cpu_s"] = round(d.extra.get("cpu_s", 0.0) + r["cpu"], 2)
        for fp, (desc, rep) in r["viol"].items():
            run.violation(fp, desc, rep)
        if len(d.samples) < 3:
            d.samples.extend(r["samples"][:1])
    d.states += len(outcomes)
    d.outcomes += len(outcomes)
    d.extra["scripts_equivalent_after_completion_not_rerun"] = d.extra.get(
        "scripts_equivalent_after_completion_not_rerun", 0) + pruned
    d.extra["scripts_excluded_paused_schedule_then_reset"] = d.extra.get(
        "scripts_excluded_paused_schedule_then_reset", 0) + excluded
    d.wall_s += time.time() - t0
    print(f"[{PID}] {d.name}: cpu={d.extra.get('cpu_s')}s (sum over workers) executions={d.executions}", flush=True)


def chunked(items, n):
    n = max(1, min(n, len(items)))
    return [items[i::n] for i in range(n)]


def script_driver(run, seed, name, specs, modes, aid, L, split_first, bounds, nchunks=64):
    """All scripts of length <= L over alphabet ``aid`` x specs x modes."""
    t0 = time.time()
    d = run.driver(name)
    d.bounds.setdefault("parts", []).append(dict(
        bounds, models=len(specs), modes=modes, alphabet=aid, max_script_len=L,
        alphabet_symbols=[" ".join(map(str, o)) for o in alphabet_of(make_model(specs[0]), aid)]))
    jobs = []
    if split_first:
        import itertools
        depth = min(L, 2 if L >= 5 else 1)
        na = len(alphabet_of(make_model(specs[0]), aid))
        for spec in specs:
            for mode in modes:
                jobs.append((name, [spec], [mode], aid, L, ("top", depth)))
                for idx in itertools.product(range(na), repeat=depth):
                    jobs.append((name, [spec], [mode], aid, L, ("sub", idx)))
    else:
        for ch in chunked(specs, nchunks):
            jobs.append((name, ch, modes, aid, L, None))
    res = pmap(_tree_job, rotate(jobs, seed), ordered=False)
    collect(run, d, res, t0)
    return d


def mode_driver(run, seed, name, specs, bounds, nchunks=64):
    t0 = time.time()
    d = run.driver(name)
    d.bounds.setdefault("parts", []).append(dict(bounds, models=len(specs), modes=MODE_ORDER))
    jobs = [(name, ch) for ch in chunked(specs, nchunks)]
    res = pmap(_mode_job, rotate(jobs, seed), ordered=False)
    collect(run, d, res, t0)
    return d


# ---------------------------------------------------------------------------
# model families
# ---------------------------------------------------------------------------
def prog_specs(n_events, behs, times, two_targets, ends, kinds=None):
    import itertools
    base = programs(n_events, behs, times, two_targets)
    if kinds is not None:
        base = [s for s in base if s[2] in kinds]
    out = []
    for prog in itertools.product(base, repeat=n_events):
        for e in ends:
            out.append(("prog", prog, e))
    return out


# hand-picked programs on which the deepest script trees are run: ties between pre-run and
# run-created events, generators in flight, cancellations, daemons + auto-termination,
# crash flags, events beyond the end time
DEEP_PROGRAMS = [
    ((0, 0, "plain", ("emit", 1, 2, False)), (1, 1, "plain", ("gen", 1, 0)), (1, 0, "daemon", ("nop",))),
    ((0, 0, "plain", ("genside", 1)), (1, 1, "plain", ("cancel", 2)), (2, 0, "plain", ("emit", 0, 1, False))),
    ((1, 0, "plain", ("emit", 0, 1, False)), (1, 1, "daemon", ("emit", 1, 1, True)), (2, 0, "cancelled", ("nop",))),
    ((0, 1, "plain", ("crash", True)), (1, 0, "plain", ("emit", 0, 2, False)), (1, 1, "plain", ("crash", False))),
    ((0, 0, "plain", ("gen", 1, 1)), (1, 0, "plain", ("emit", 2, 2, False)), (2, 1, "plain", ("past",))),
    ((1, 0, "plain", ("emit", 1, 2, False)), (2, 1, "plain", ("emit", 0, 1, False)), (2, 0, "plain", ("gen", 0, 1))),
]

PIPES = [("pipe", 4, 0.375, 1.25), ("pipe", 4, 0.125, 1.0)]
RANDS = [("rand", 20240611, 8, 0.125, 1.5), ("rand", 7, 6, 0.25, 1.25)]
GENFUTS = [
    ("genfut", ((0, 1, 1, 2, 2), (1, 0, 2, 1, 2)), None),
    ("genfut", ((0, 0, 2, 3, 2), (0, 1, 1, 1, 1)), 6),
    ("genfut", ((0, 1, 1, 2, 2),), None),
]


def _warm():
    """Run one tiny execution of every family in the parent so that the library's lazy
    imports are paid once, before the worker pool forks."""
    for spec in (("prog", DEEP_PROGRAMS[0], 2), PIPES[0], GENFUTS[2], RANDS[0]):
        m = make_model(spec)
        c = Cache()
        judge_modes(m, c)
        sc = (("S", 1), ("BM",), ("I", 0))
        judge(m, "all", sc, run_script(m, "all", sc), c)


def plans(tier):
    """(driver, kind, specs, modes, alphabet id, max script length, split per first op, bounds note)"""
    q = tier == "quick"
    deep = [("prog", p, e) for p in DEEP_PROGRAMS for e in (None, 2)]
    deep_alt = [("prog", p, (None, 2)[i % 2]) for i, p in enumerate(DEEP_PROGRAMS)]
    p1 = prog_specs(1, BEH_FULL, (0, 1, 2), True, (None, 2, 0))
    p1b = prog_specs(1, BEH_FULL, (0, 1, 2), True, (None, 2))
    p2s1 = prog_specs(2, BEH_SMALL, (1, 2), False, (None, 2))
    p2 = p2s = p3s = []
    if not q:
        p2 = prog_specs(2, BEH_FULL, (0, 1, 2), False, (None, 2))
        p2s = prog_specs(2, BEH_SMALL, (1, 2), True, (None, 2))
        p3s = prog_specs(3, BEH_SMALL, (1, 2), False, (2,))
    lib = PIPES + GENFUTS + RANDS
    st1 = [s for s in p1b if make_model(s).stateless or make_model(s).precancelled]
    st2 = [s for s in p2s1 if make_model(s).stateless]
    stdeep = [("prog", p, e) for p in STATELESS_DEEP for e in (None, 2)]
    P = []
    # ---- mode clause: every model, uninterrupted, under each of the 7 observation modes
    P.append(("modes-programs", "modes", p1 + (p2s1 if q else p2 + p3s) + deep, None, None, None, False,
              f"C01 family: 1 event ({len(BEH_FULL)} behaviours x 3 kinds x 3 times x 2 targets) x end{{None,2,0}}; "
              + (f"2 events ({len(BEH_SMALL)} behaviours, 1 target) x end{{None,2}}" if q else
                 f"2 events ({len(BEH_FULL)} behaviours) x end{{None,2}}; 3 events ({len(BEH_SMALL)} behaviours) x end 2")
              + "; 6 hand-picked 3-event programs"))
    P.append(("modes-library", "modes", lib, None, None, None, False,
              "2 pipelines Source.constant->Server->Sink (explicit end), 3 generator/SimFuture models, 2 stochastic "
              "pipelines Source.poisson->RandomRouter->2 Servers(ExponentialLatency)->Sink on the seeded global "
              "random / numpy streams"))
    # ---- wide: many programs, short scripts
    if q:
        P.append(("scripts-programs-wide", "scripts", p1b, ["control"], "A", 2, False,
                  "every 1-event program x end{None,2}; all scripts <= 2 over the 12-symbol alphabet (set A)"))
        P.append(("scripts-programs-wide", "scripts", p2s1, ["control"], "ext", 1, False,
                  f"every 2-event program ({len(BEH_SMALL)} behaviours, 1 target) x end{{None,2}}; every single call of the 19-symbol alphabet"))
    else:
        P.append(("scripts-programs-wide", "scripts", p1, ["control"], "ext", 2, False,
                  "every 1-event program x end{None,2,0}; all scripts <= 2 over the 19-symbol extended alphabet"))
        P.append(("scripts-programs-wide", "scripts", p1b, ["control"], "A", 3, False,
                  "every 1-event program x end{None,2}; all scripts <= 3 over the 12-symbol alphabet (set A)"))
        P.append(("scripts-programs-wide", "scripts", p2s, ["control"], "ext", 1, False,
                  f"every 2-event program ({len(BEH_SMALL)} behaviours, 2 targets); every single call of the 19-symbol alphabet"))
        P.append(("scripts-programs-wide", "scripts", p2, ["control"], "pause", 1, False,
                  f"every 2-event program ({len(BEH_FULL)} behaviours); every single pause/step/resume/hook-pause call"))
    # ---- stepper: pause at EVERY position of the run, schedule while paused at every position
    P.append(("scripts-stepper", "stepper", p1b + (p2s1 if q else p2) + deep, ["control"], None, None, False,
              f"every 1-event program, every 2-event program ({len(BEH_SMALL) if q else len(BEH_FULL)}-behaviour alphabet) x end{{None,2}}, "
              "6 hand-picked programs"))
    P.append(("scripts-stepper", "stepper", lib, ["control", "all"], None, None, False,
              "2 pipelines, 3 generator/future models, 2 stochastic pipelines"))
    # ---- deep: full script trees on hand-picked programs
    if q:
        P.append(("scripts-programs-deep", "scripts", deep_alt[:3], ["control"], "A", 4, True,
                  "3 hand-picked programs: ALL scripts <= 4 over the 12-symbol alphabet, parameter set A"))
        P.append(("scripts-programs-deep", "scripts", deep_alt[3:], ["control"], "B", 4, True,
                  "3 hand-picked programs: ALL scripts <= 4, parameter set B"))
        P.append(("scripts-programs-deep", "scripts", deep, ["all"], "A", 3, True,
                  "6 programs x end{None,2}: ALL scripts <= 3 with every observer attached"))
    else:
        P.append(("scripts-programs-deep", "scripts", deep_alt, ["control"], "A", 5, True,
                  "6 hand-picked programs: ALL scripts <= 5 over the 12-symbol alphabet, parameter set A"))
        P.append(("scripts-programs-deep", "scripts", deep_alt, ["control"], "B", 5, True, "same, parameter set B"))
        P.append(("scripts-programs-deep", "scripts", deep, ["all"], "A", 4, True,
                  "6 programs x end{None,2}: ALL scripts <= 4 with every observer attached"))
        P.append(("scripts-programs-deep6", "scripts", deep[:1], ["control"], "A", 6, True,
                  "program #0 (tie between pre-run, run-created and daemon events + generator): ALL scripts <= 6"))
    # ---- library pipeline
    if q:
        P.append(("scripts-pipeline", "scripts", PIPES[:1], ["control"], "A", 4, True,
                  "Source.constant(4/s)->Server(0.375s,c=1)->Sink, end 1.25s: ALL scripts <= 4, set A"))
        P.append(("scripts-pipeline", "scripts", PIPES, ["all"], "B", 3, True, "both pipelines, all observers: ALL scripts <= 3, set B"))
    else:
        P.append(("scripts-pipeline", "scripts", PIPES[:1], ["control"], "A", 5, True,
                  "Source.constant(4/s)->Server(0.375s,c=1)->Sink, end 1.25s: ALL scripts <= 5, set A"))
        P.append(("scripts-pipeline", "scripts", PIPES[1:], ["control"], "B", 5, True, "service 0.125s, end 1.0s: ALL scripts <= 5, set B"))
        P.append(("scripts-pipeline", "scripts", PIPES, ["all"], "A", 4, True, "both pipelines, all observers: ALL scripts <= 4"))
        P.append(("scripts-pipeline6", "scripts", PIPES[:1], ["control"], "pause", 6, True,
                  "pipeline 1: ALL scripts <= 6 over {P,S1,S2,S5,R,H1,H2,H3}"))
    # ---- generator / future model
    if q:
        P.append(("scripts-genfut", "scripts", GENFUTS[:1], ["control"], "A", 4, True,
                  "2 clients, request/response future + any_of(timeout,response): ALL scripts <= 4, set A"))
        P.append(("scripts-genfut", "scripts", GENFUTS[1:], ["all"], "B", 3, True, "tie timeout/response with explicit end; single client: <= 3, set B"))
    else:
        P.append(("scripts-genfut", "scripts", GENFUTS[:2], ["control"], "A", 5, True,
                  "2-client models: ALL scripts <= 5, set A"))
        P.append(("scripts-genfut", "scripts", GENFUTS[:2], ["control"], "B", 4, True, "2-client models: <= 4, set B"))
        P.append(("scripts-genfut", "scripts", GENFUTS, ["all"], "A", 4, True, "all 3 models, all observers: <= 4"))
        P.append(("scripts-genfut6", "scripts", GENFUTS[2:], ["control"], "A", 6, True,
                  "single client (12 deliveries): ALL scripts <= 6 over the 12-symbol alphabet"))
    # ---- stochastic pipeline on the process-wide RNG streams: registrations must not consume draws
    if q:
        P.append(("scripts-random", "scripts", RANDS[:1], ["control"], "A", 3, True,
                  "Source.poisson(8/s)->RandomRouter->2 Servers(Exp 0.125s)->Sink, end 1.5s, random+numpy seeded: ALL scripts <= 3, set A"))
        P.append(("scripts-random", "scripts", RANDS[1:], ["all"], "B", 2, True, "second seed/rate, all observers: <= 2, set B"))
    else:
        P.append(("scripts-random", "scripts", RANDS[:1], ["control"], "A", 4, True,
                  "Source.poisson(8/s)->RandomRouter->2 Servers(Exp 0.125s)->Sink, end 1.5s, random+numpy seeded: ALL scripts <= 4, set A"))
        P.append(("scripts-random", "scripts", RANDS, ["all"], "B", 3, True, "both stochastic pipelines, all observers: <= 3, set B"))
    # ---- inspection / removal calls and metric breakpoints that hold at 0: must not change the run
    insp = [("prog", p, None) for p in INSPECT_PROGRAMS]
    if q:
        P.append(("scripts-inspect", "scripts", insp, ["control"], "insp", 3, True,
                  "4 hand-picked programs with cancelled + daemon events and auto-termination (no end time): ALL scripts "
                  "<= 3 over {S1,S2,R,H1,BC,BM,BZ eq0/lt1/le0/ge0,peek_next(1),peek_next(3),find_events,get_state,"
                  "list_breakpoints,remove_breakpoint,remove_hook,clear_breakpoints}"))
        P.append(("scripts-inspect", "scripts", lib, ["control"], "insp", 2, True, "library / generator / stochastic models: <= 2"))
    else:
        P.append(("scripts-inspect", "scripts", insp + [("prog", p, 2) for p in INSPECT_PROGRAMS], ["control"], "insp", 4, True,
                  "4 hand-picked programs with cancelled + daemon events x end{None,2}: ALL scripts <= 4 over the 18-symbol "
                  "inspection alphabet"))
        P.append(("scripts-inspect", "scripts", deep, ["all"], "insp", 3, True, "6 hand-picked programs x end{None,2}, all observers: <= 3"))
        P.append(("scripts-inspect", "scripts", lib, ["control"], "insp", 3, True, "library / generator / stochastic models: <= 3"))
    # ---- every observation mode under pausing
    P.append(("scripts-modes", "scripts", deep_alt[:4] + lib, SCRIPT_MODES, "A", 2 if q else 3, True,
              "4 programs, 2 pipelines, 3 generator models, 2 stochastic pipelines x each of 6 observer combinations"))
    # ---- reset()
    P.append(("reset-programs", "scripts", st1, ["control"], "rst", 2 if q else 3, False,
              "stateless 1-event programs (nop/emit/gen/genside/past; plain/daemon/pre-cancelled): scripts over "
              "{P,S1,S2,R,H1,BC2,BM,I0,Z}"))
    pc = [x for x in prog_specs(2, CANCEL_BEHS, (1, 2), False, (None, 2), kinds=("plain", "daemon"))
          if any(b[0] == "cancel" for (_t, _ti, _k, b) in x[1]) and make_model(x).cancel_safe]
    P.append(("reset-programs", "scripts", pc, ["control"], "rst", 2 if q else 3, False,
              "2-event programs over {nop, emit, gen, cancel 0, cancel 1} (plain/daemon) in which model code cancels a "
              "pre-run event at or after that event's own delivery (replay-safe cancellation)"))
    P.append(("reset-programs", "scripts", stdeep, ["control"] if q else ["control", "all"], "rst", 3 if q else 4, False,
              "3 stateless 3-event programs x end{None,2}"))
    if not q:
        P.append(("reset-programs", "scripts", st2, ["control"], "rst", 3, False,
                  "every stateless 2-event program of the small-alphabet family (1 target)"))
    return P


CANCEL_BEHS = [("nop",), ("emit", 0, 1, False), ("gen", 1, 0), ("cancel", 0), ("cancel", 1)]

# cancelled (lazily deleted) entries at the head of the heap, daemon events outliving the last primary one
INSPECT_PROGRAMS = [
    ((1, 0, "plain", ("nop",)), (2, 0, "cancelled", ("nop",)), (3, 0, "daemon", ("emit", 1, 1, True))),
    ((0, 0, "plain", ("gen", 1, 1)), (1, 0, "plain", ("cancel", 2)), (2, 1, "plain", ("nop",)),
     (2, 0, "daemon", ("emit", 1, 1, True))),
    ((1, 0, "cancelled", ("nop",)), (1, 1, "daemon", ("gen", 1, 0)), (2, 0, "plain", ("emit", 0, 2, False))),
    ((0, 0, "plain", ("genside", 1)), (1, 0, "cancelled", ("emit", 1, 1, False)), (1, 1, "daemon", ("nop",)),
     (3, 1, "daemon", ("nop",))),
]

STATELESS_DEEP = [
    ((0, 0, "plain", ("emit", 1, 2, False)), (1, 1, "plain", ("gen", 1, 0)), (1, 0, "daemon", ("nop",))),
    ((0, 0, "plain", ("genside", 1)), (1, 1, "daemon", ("emit", 1, 1, True)), (2, 0, "plain", ("emit", 0, 1, False))),
    ((1, 0, "plain", ("gen", 0, 1)), (1, 1, "plain", ("emit", 0, 2, False)), (2, 0, "plain", ("past",))),
]


def main(tier, seed, only=None):
    signal.signal(signal.SIGALRM, _on_alarm)
    run = Run(PID, tier, seed, "model_checking",
              rule=("an execution = (model, observation mode, control script) run on the real Simulation and "
                    "compared with the uninterrupted run of the same model; distinct = distinct (model, mode, script); "
                    "non-trivial = the script actually paused the run at least once (a pause/step/breakpoint "
                    "returned with the run paused) or, for mode drivers, an observed run of >= 2 deliveries; "
                    "states = distinct (model, sequence of (call, events_processed, paused|done) returns) observed"),
              assumptions=["harness entities observe deliveries inside handle_event (public contract)",
                           "the reference for events scheduled while paused after delivery j is the same event "
                           "scheduled from an on_event hook after delivery j of an uninterrupted run",
                           "reset() is compared only on models whose entities are stateless (harness bookkeeping "
                           "is cleared by the harness)",
                           "a script extended beyond the completion of the run performs no further calls; such "
                           "extensions are counted (scripts_equivalent_after_completion_not_rerun), not re-executed"])
    _warm()
    for (name, kind, specs, modes, aid, L, split, note) in plans(tier):
        if only and name not in only:
            continue
        if kind == "modes":
            mode_driver(run, seed, name, specs, {"note": note}, nchunks=128)
        elif kind == "stepper":
            stepper_driver(run, seed, name, specs, modes, {"note": note}, nchunks=256)
        else:
            script_driver(run, seed, name, specs, modes, aid, L, split, {"note": note}, nchunks=256)
    # re-run every violating case from its replay data before reporting it
    for fp, (desc, rep) in list(run.violations.items()):
        if not reproduces(rep, fp):
            del run.violations[fp]
            run.notes.append(f"DROPPED non-reproducible violation {fp}: {desc}")
            print(f"[{PID}] WARNING: violation {fp} did not reproduce from its replay data; dropped (harness nondeterminism?)")
    return run.finish()


def reproduces(rep, fp):
    model = make_model(_thaw(rep["model"]))
    cache = Cache()
    if rep.get("modes"):
        v, _n = judge_modes(model, cache)
    else:
        script = _thaw(rep["script"])
        v, _nt, _ok = judge(model, rep["mode"], script, run_script(model, rep["mode"], script), cache)
    return any(f == fp for f, _ in v)


# ---------------------------------------------------------------------------
# replay
# ---------------------------------------------------------------------------
def replay(data):
    signal.signal(signal.SIGALRM, _on_alarm)
    rep = data["replay"]
    model = make_model(_thaw(rep["model"]))
    print("model:", model.spec)
    cache = Cache()
    if rep.get("modes"):
        v, _n = judge_modes(model, cache)
        for mode in MODE_ORDER:
            r = cache.plain(model, mode)
            print(f"  mode {mode:9s} events={r.total} cancelled={r.cancelled} log={r.obs[0][:12]}")
        for fp, desc in v:
            print(f"  !! {fp}: {desc}")
        return 1 if any(fp == data.get("fingerprint") for fp, _ in v) or (v and not data.get("fingerprint")) else 0
    mode = rep["mode"]
    script = _thaw(rep["script"])
    print("mode:", mode, "script:", script)
    ex = run_script(model, mode, script)
    segs = ex.done_segs + [(ex.items, ex.w.log)]
    for si, (items, log) in enumerate(segs):
        print(f"  -- segment {si} (after {si} reset() calls)")
        for it in items:
            if it[0] == "adv":
                kind, n, p, q, phase, cur, lt, ltgt, heap, prim, nlog, tot = it[1]
                print(f"    {OPNAME[kind]}{'(' + str(n) + ')' if n else ''}: events_processed {p}->{q} {phase} "
                      f"t={cur}ns last=({lt},{ltgt}) heap={heap} primary={prim} harness-log-entries={nlog}")
            else:
                print(f"    {it}")
        print(f"    harness log: {list(log)}")
    if ex.error:
        print("  error:", ex.error)
    plan = tuple((it[1], it[2], it[3]) for it in ex.items if it[0] == "inj")
    ref = cache.ref(model, plan)
    print(f"  uninterrupted run (paused-schedule plan {plan}): {ref.N} deliveries")
    for j, dj in enumerate(ref.D):
        print(f"    after delivery {j}: t={dj[0]} type={dj[1]} target={dj[2]} metric={dj[3]} heap={dj[4]} primary={dj[5]} log-entries={dj[6]}")
    print(f"    harness log: {ref.log}")
    v, _nt, _ok = judge(model, mode, script, ex, cache)
    for fp, desc in v:
        print(f"  !! {fp}: {desc}")
    want = data.get("fingerprint")
    return 1 if (any(fp == want for fp, _ in v) if want else bool(v)) else 0

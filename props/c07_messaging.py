"""C07 registry: messaging (MessageQueue, Topic, DeadLetterQueue) and streaming (EventLog, ConsumerGroup,
StreamProcessor)."""
from __future__ import annotations

from props.c07_core import Drv, Entity, Event, P, PI, R

from happysimulator.components.messaging import DeadLetterQueue, MessageQueue, Topic
from happysimulator.components.streaming import (ConsumerGroup, EventLog, SessionWindow, SlidingWindow,
                                                 StreamProcessor, TimeRetention, TumblingWindow)
from happysimulator.components.streaming.stream_processor import LateEventPolicy


class _Consumer(Entity):
    """Queue consumer: acknowledges, or (payload says 'nack') leaves the message unacknowledged and asks the
    queue to schedule its redelivery, exactly as the queue's API intends (schedule_redelivery -> event)."""

    def __init__(self, name, queue, L):
        super().__init__(name)
        self.queue = queue
        self.L = L
        self.got = 0

    def handle_event(self, event):
        self.got += 1
        return self._process(event)

    def _process(self, event):
        yield self.L
        mid = event.context.get("message_id")
        payload = event.context.get("payload")
        mode = payload.context.get("metadata", {}).get("mode") if payload is not None else None
        if mode == "nack":
            ev = self.queue.schedule_redelivery(mid)
            return [ev] if ev is not None else None
        if mode == "reject":
            self.queue.reject(mid, requeue=True)
            return [Event(time=self.now, event_type="poll", target=self.queue)]
        self.queue.acknowledge(mid)
        return None


class MessageQueueDrv(Drv):
    family = "messaging"
    covers = ("MessageQueue", "DeadLetterQueue")
    ops = ("publish", "publish_nack", "publish_reject")

    def build(self, cfg):
        self.dlq = DeadLetterQueue("dlq", capacity=2, retention_period=P(2.0))
        self.q = MessageQueue("mq", delivery_latency=cfg.L, redelivery_delay=P(1.0), max_redeliveries=2,
                              dead_letter_queue=self.dlq)
        self.c1 = _Consumer("c1", self.q, cfg.L)
        self.c2 = _Consumer("c2", self.q, cfg.L)
        self.q.subscribe(self.c1)
        self.q.subscribe(self.c2)
        return [self.dlq, self.q, self.c1, self.c2]

    def request(self, i, op):
        mode = {"publish": "ack", "publish_nack": "nack", "publish_reject": "reject"}[op]
        msg = self.h.ev(self.h.out, "order", {"metadata": {"mode": mode, "i": i}})
        yield from self.q.publish(msg)
        # producer pokes the queue (its 'poll' event type) so the message is delivered
        return [self.h.ev(self.q, "poll")]


class DeadLetterQueueDrv(Drv):
    """DLQ admin path: messages dead-lettered by the queue, then reprocessed into the queue + cleanup events."""
    family = "messaging"
    covers = ("DeadLetterQueue", "MessageQueue")
    ops = ("deadletter", "reprocess")

    def build(self, cfg):
        self.dlq = DeadLetterQueue("dlq", capacity=3, retention_period=P(1.0))
        # the queue in front of the DLQ delivers with zero latency here: this driver is about the DLQ paths
        self.q = MessageQueue("mq", delivery_latency=0.0, redelivery_delay=P(0.5), max_redeliveries=0,
                              dead_letter_queue=self.dlq)
        self.c1 = _Consumer("c1", self.q, cfg.L)
        self.q.subscribe(self.c1)
        return [self.dlq, self.q, self.c1]

    def request(self, i, op):
        if op == "deadletter":
            msg = self.h.ev(self.h.out, "order", {"metadata": {"mode": "nack", "i": i}})
            yield from self.q.publish(msg)
            return [self.h.ev(self.q, "poll"), self.h.ev(self.dlq, "cleanup", delay=P(1.5))]
        yield self.cfg.L
        return self.dlq.reprocess_all(self.q) + [self.h.ev(self.dlq, "clear")]


class TopicDrv(Drv):
    family = "messaging"
    covers = ("Topic",)
    ops = ("publish", "publish_event", "subscribe")

    def build(self, cfg):
        self.t = Topic("topic", delivery_latency=cfg.L)
        self.t.set_retain_messages(True, max_history=4)
        self.late = _Sub("late-sub")
        self.t.subscribe(self.h.out)
        self.s2 = _Sub("s2")
        self.t.subscribe(self.s2)
        return [self.t, self.s2, self.late]

    def request(self, i, op):
        if op == "publish":        # generator API under the engine
            msg = self.h.ev(self.h.out, "news", {"metadata": {"i": i}})
            evs = yield from self.t.publish(msg)
            return evs
        if op == "publish_event":  # event API
            msg = self.h.ev(self.h.out, "news", {"metadata": {"i": i}})
            return [self.h.ev(self.t, "publish", {"payload": msg})]
        return self.t.subscribe(self.late, replay_history=True)


class _Sub(Entity):
    def __init__(self, name):
        super().__init__(name)
        self.got = 0

    def handle_event(self, event):
        self.got += 1
        return None


class EventLogDrv(Drv):
    family = "streaming"
    covers = ("EventLog", "TimeRetention")
    ops = ("append", "read")

    def build(self, cfg):
        max_age, sweep = PI(1.0, 0.5)
        self.log = EventLog("log", num_partitions=2, retention_policy=TimeRetention(max_age_s=max_age),
                            append_latency=cfg.L, read_latency=cfg.L, retention_check_interval=sweep)
        return [self.log]

    def request(self, i, op):
        if op == "append":
            yield from self.log.append("k", {"i": i})
        else:
            yield from self.log.read(partition_id=0, offset=0, max_records=10)
        return None


class ConsumerGroupDrv(Drv):
    family = "streaming"
    covers = ("ConsumerGroup", "EventLog")
    ops = ("join_poll", "produce", "leave")

    def build(self, cfg):
        self.log = EventLog("log", num_partitions=2, append_latency=cfg.L, read_latency=cfg.L)
        self.g = ConsumerGroup("group", self.log, rebalance_delay=cfg.L, poll_latency=cfg.L)
        return [self.log, self.g]

    def request(self, i, op):
        me = f"consumer-{i}"
        if op == "produce":
            yield from self.log.append(f"k{i}", i)
            return None
        if op == "leave":
            yield from self.g.join("consumer-x", self.h.caller)
            yield from self.g.leave("consumer-x")
            return None
        parts = yield from self.g.join(me, self.h.caller)
        records = yield from self.g.poll(me, max_records=10)
        offsets = {}
        for r in records or []:
            offsets[r.partition] = max(offsets.get(r.partition, 0), r.offset + 1)
        yield from self.g.commit(me, offsets)
        return None


class _StreamDrv(Drv):
    family = "streaming"
    ops = ("process", "process_late")
    window = None
    policy = LateEventPolicy.SIDE_OUTPUT

    def build(self, cfg):
        self.side = _Sub("side")
        size, watermark = PI(0.5, 0.5)
        self.sp = StreamProcessor("sp", window_type=self.window(size), aggregate_fn=len, downstream=self.h.out,
                                  allowed_lateness_s=0.0, late_event_policy=self.policy, side_output=self.side,
                                  watermark_interval_s=watermark)
        return [self.sp, self.side]

    def request(self, i, op):
        now_s = self.h.now.to_seconds()
        et = now_s if op == "process" else now_s - 2.0
        return [self.h.ev(self.sp, "Process", {"key": "k", "value": i, "event_time_s": et})]


class StreamProcessorTumblingDrv(_StreamDrv):
    covers = ("StreamProcessor", "TumblingWindow")
    window = staticmethod(lambda size: TumblingWindow(size_s=size))


class StreamProcessorSlidingDrv(_StreamDrv):
    covers = ("StreamProcessor", "SlidingWindow")
    window = staticmethod(lambda size: SlidingWindow(size_s=2 * size, slide_s=size))
    policy = LateEventPolicy.UPDATE


class StreamProcessorSessionDrv(_StreamDrv):
    covers = ("StreamProcessor", "SessionWindow")
    window = staticmethod(lambda size: SessionWindow(gap_s=size))
    policy = LateEventPolicy.DROP


DRIVERS = [MessageQueueDrv, DeadLetterQueueDrv, TopicDrv, EventLogDrv, ConsumerGroupDrv,
           StreamProcessorTumblingDrv, StreamProcessorSlidingDrv, StreamProcessorSessionDrv]

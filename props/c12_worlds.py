"""C12 helpers — BFS worlds over the real consensus objects (engine E1).

A world bundles real library objects (``Network`` used only for its public
``send`` factory, a ``Clock``, the protocol nodes) with the harness' bag of
in-flight messages, the pending timer events and ghost variables.  Every move
calls the real ``handle_event`` / public API with exactly one pending thing.

Time model (Paxos family): message delays are arbitrary, so a delivery can
happen at any moment; the clock is frozen and timers carry a creation *epoch*
(= number of timers fired before they were created).  Only timers of the oldest
pending epoch may fire.  Every such order is realisable with real delays: choose
all message delays ~0, then timers created in one epoch are created at the same
instant and the retry jitter (``retry_delay * (1 + random.random())``) /
independent offsets let them fire in any order, and older epochs fire first.
"""
from __future__ import annotations

import contextlib
import dataclasses
import random as _random

from mc.harness import Entity, Event, Instant  # noqa: F401  (sets VERIF_REPO import root first)

from happysimulator.components.network.network import Network
from happysimulator.core.clock import Clock
from happysimulator.core.sim_future import SimFuture

# ---------------------------------------------------------------------------
# canonical freezing of arbitrary library objects
# ---------------------------------------------------------------------------
STAT_FIELDS = frozenset({
    # pure statistics: written, never read by a handler
    "_proposals_started", "_proposals_succeeded", "_proposals_failed", "_promises_received",
    "_nacks_received", "_accepts_received", "_commands_committed", "_leader_changes",
    "_elections_started", "_elections_won", "_elections_participated",
    "_total_acquires", "_total_releases", "_total_expirations", "_total_rejections",
    "_last_leader_heartbeat__mp",
})
STRUCT_FIELDS = frozenset({"_network", "_clock", "_peers", "_members", "name"})


def freeze(o, depth=0):
    """Hashable canonical form of library state (used only for dedup hashes)."""
    if depth > 14:
        return repr(o)
    if o is None or isinstance(o, (bool, int, float, str)):
        return o
    if isinstance(o, dict):
        return tuple(sorted(((freeze(k, depth + 1), freeze(v, depth + 1)) for k, v in o.items()), key=repr))
    if isinstance(o, (list, tuple)):
        return tuple(freeze(x, depth + 1) for x in o)
    if isinstance(o, (set, frozenset)):
        return tuple(sorted((freeze(x, depth + 1) for x in o), key=repr))
    if isinstance(o, SimFuture):
        return ("F", o.is_resolved, freeze(o.value, depth + 1) if o.is_resolved else None)
    if isinstance(o, Event):
        return ("E", o.event_type, o.cancelled, freeze(o.context.get("metadata"), depth + 1))
    if isinstance(o, Entity):
        return ("ent", o.name)
    if isinstance(o, Instant):
        return ("t", o.nanoseconds)
    if dataclasses.is_dataclass(o) and not isinstance(o, type):
        return (type(o).__name__,) + tuple((f.name, freeze(getattr(o, f.name), depth + 1))
                                           for f in dataclasses.fields(o))
    d = getattr(o, "__dict__", None)
    if d is not None:
        return (type(o).__name__, freeze(d, depth + 1))
    return repr(o)


def node_canon(node, drop=()):
    d = {k: v for k, v in vars(node).items()
         if k not in STAT_FIELDS and k not in STRUCT_FIELDS and k not in drop}
    return (node.name, freeze(d))


def _third(m):
    return m[2]


def md_key(md):
    return repr(freeze(md))


@contextlib.contextmanager
def fixed_random(value=0.0, randint=None):
    """Own the module-level RNG functions the consensus code calls."""
    saved = (_random.random, _random.randint)
    _random.random = lambda: value
    if randint is not None:
        _random.randint = randint
    try:
        yield
    finally:
        _random.random, _random.randint = saved


# ---------------------------------------------------------------------------
# base world
# ---------------------------------------------------------------------------
class NetWorld:
    """Real nodes + in-flight message bag + pending timers."""

    FROZEN_CLOCK = True

    def __init__(self):
        self.clock = Clock(Instant.Epoch)
        self.net = Network(name="net")
        self.net.set_clock(self.clock)
        self.nodes = []
        self.msgs = []  # [(etype, metadata dict)] kept sorted by canonical key
        self.timers = []  # [(epoch, Event)] live timer events targeting nodes
        self.epoch = 0
        self.counts = {}  # move-kind counters used by the state constraints
        self.last = None

    # -- wiring ---------------------------------------------------------
    def add_nodes(self, nodes):
        self.nodes = list(nodes)
        for n in self.nodes:
            n.set_clock(self.clock)
        self.by_name = {n.name: n for n in self.nodes}

    def bump(self, k, n=1):
        self.counts[k] = self.counts.get(k, 0) + n

    def cnt(self, k):
        return self.counts.get(k, 0)

    # -- absorbing handler results ---------------------------------------
    def absorb(self, result, origin=None):
        if result is None:
            return
        if isinstance(result, Event):
            result = [result]
        for ev in result:
            if ev is None:
                continue
            if ev.target is self.net:
                md = ev.context["metadata"]
                self.on_send(ev.event_type, md)
                self.msgs.append((ev.event_type, md, ev.event_type + " " + repr(sorted(md.items()))))
            else:
                self.timers.append((self.epoch, ev))
        self.msgs.sort(key=_third)

    def on_send(self, etype, md):
        """Ghost hook: a message was put on the network."""

    # -- moves ------------------------------------------------------------
    def msg_desc(self, m):
        etype, md = m[0], m[1]
        rest = {k: v for k, v in md.items() if k not in ("source", "destination")}
        return f"{etype} {md.get('source')}->{md.get('destination')} {rest}"

    def timer_desc(self, t):
        ep, ev = t
        return f"{ev.event_type}@{ev.target.name} {ev.context.get('metadata')}"

    def live_timers(self):
        return [(i, t) for i, t in enumerate(self.timers) if not t[1].cancelled]

    def enabled(self):
        labs = []
        seen = set()
        for i, m in enumerate(self.msgs):
            if self.deliverable(m):
                if m[2] in seen:  # identical messages: delivering either gives the same state
                    continue
                seen.add(m[2])
                labs.append(("deliver", i, self.msg_desc(m)))
        live = self.live_timers()
        if live and self.timers_enabled():
            oldest = min(t[0] for _, t in live)
            for i, t in live:
                if t[0] == oldest or not self.FROZEN_CLOCK:
                    labs.append(("timer", i, self.timer_desc(t)))
        labs.extend(self.client_moves())
        return labs

    def deliverable(self, m):
        return True

    def timers_enabled(self):
        return True

    def client_moves(self):
        return []

    def apply(self, lab):
        kind = lab[0]
        self.last = lab
        with fixed_random():
            if kind == "deliver":
                i = lab[1]
                m = self.msgs[i]
                if self.msg_desc(m) != lab[2]:
                    raise RuntimeError(f"replay mismatch: {lab} vs {self.msg_desc(m)}")
                del self.msgs[i]
                etype, md = m[0], m[1]
                dst = self.by_name[md["destination"]]
                ev = Event(time=self.clock.now, event_type=etype, target=dst, daemon=True,
                           context={"metadata": md})
                self.bump("deliver")
                self.before_handle(dst, etype, md)
                self.absorb(dst.handle_event(ev))
            elif kind == "timer":
                i = lab[1]
                ep, ev = self.timers[i]
                if self.timer_desc((ep, ev)) != lab[2]:
                    raise RuntimeError(f"replay mismatch: {lab}")
                del self.timers[i]
                self.epoch += 1
                self.bump("timer")
                self.bump("timer:" + ev.event_type)
                if not self.FROZEN_CLOCK and ev.time > self.clock.now:
                    self.clock.update(ev.time)
                self.before_handle(ev.target, ev.event_type, ev.context.get("metadata", {}))
                self.absorb(ev.target.handle_event(ev))
            else:
                self.apply_client(lab)
        self.timers = [t for t in self.timers if not t[1].cancelled]
        self.observe()

    def before_handle(self, node, etype, md):
        pass

    def apply_client(self, lab):
        raise NotImplementedError(lab)

    def observe(self):
        """Update ghost variables from public state after a move."""

    # -- canonical state ----------------------------------------------------
    def canon_msgs(self):
        return tuple(m[2] for m in self.msgs)

    def canon_timers(self):
        live = [t for t in self.timers if not t[1].cancelled]
        base = min((t[0] for t in live), default=0)
        return tuple(sorted((t[0] - base, t[1].target.name, t[1].event_type,
                             md_key(t[1].context.get("metadata"))) for t in live))

    def canon_nodes(self):
        return tuple(node_canon(n) for n in self.nodes)

    def canon_ghost(self):
        return ()

    def canon(self):
        return (self.canon_nodes(), self.canon_msgs(), self.canon_timers(),
                tuple(sorted(self.counts_in_canon().items())), self.canon_ghost())

    def counts_in_canon(self):
        """Counters that drive enabledness / constraints must be part of the state."""
        return {}

    def check(self):
        return []

    def within(self):
        return True

    def describe(self):
        return ""

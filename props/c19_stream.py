"""C19 helpers: EventLog, ConsumerGroup (membership + commits), OutboxRelay, IdempotencyStore,
StreamProcessor op-sequence drivers (same scheme as props/c19_mq.py: one harness operation per
1 s tick inside a real Simulation, every sequence of applicable operations enumerated).

Operations are *spawned*: the script sends an event to a harness worker entity whose handler runs
the public generator API (``yield from log.append(..)``, ``group.join(..)`` ...), so an operation
that takes longer than a tick overlaps the following ones.
"""
from __future__ import annotations

import itertools

from mc.evidence import digest
from mc.harness import Entity, Event, Instant, Simulation, run_guarded

from props import c19_mq as MQ
from props.c19_mq import TICK, Forced


def _streaming():
    from happysimulator.components import streaming
    return streaming


class SeqScript(Entity):
    def __init__(self, w):
        super().__init__("script")
        self.w = w

    def handle_event(self, event):
        if event.event_type != "tick":
            return None
        w = self.w
        i = event.context["metadata"]["i"]
        w.observe(i)
        if w.viol is not None:
            return None
        opts = w.applicable(i)
        if i - w.start_tick < len(w.forced):
            op = w.forced[i - w.start_tick]
            if op not in opts:
                w.aborted = True
                return None
        elif w.chooser is None or isinstance(w.chooser, Forced):
            op = "end"
        else:
            op = opts[w.chooser.choose(len(opts), tuple(opts))]
        if op == "end":
            w.trace(f"t={i}s  -- end of sequence --")
            return [Event(time=Instant((i + w.settle) * TICK), event_type="final", target=w.final_ent)]
        w.ops.append(op)
        w.transitions += 1
        out = w.apply(op, self, i)
        nxt = Event(time=Instant((i + 1) * TICK), event_type="tick", target=self, context={"metadata": {"i": i + 1}})
        return list(out) + [nxt]


class FinalEnt(Entity):
    def __init__(self, w):
        super().__init__("final")
        self.w = w

    def handle_event(self, event):
        self.w.final()
        self.w.finished = True
        self.w.sim_ref.control.pause()  # perpetual housekeeping timers would otherwise run to the horizon
        return None


class Worker(Entity):
    """Runs one spawned operation (a generator over the public API) per received event."""

    def __init__(self, w):
        super().__init__("worker")
        self.w = w

    def handle_event(self, event):
        if event.event_type != "do":
            return None
        return self.w.do(self, event.context["metadata"]["op"])


class SeqWorld:
    component = "?"
    settle = 3

    def __init__(self, cfg, chooser, forced=(), max_len=5, verbose=False):
        self.cfg = cfg
        self.chooser = chooser
        self.forced = list(forced)
        self.max_len = max_len
        self.verbose = verbose
        self.ops = []
        self.viol = None
        self.aborted = False
        self.finished = False
        self.transitions = 0
        self.flags = set()
        self.receipts = []
        self.script = SeqScript(self)
        self.final_ent = FinalEnt(self)
        self.worker = Worker(self)
        self.start_tick = 0
        self.build()

    # hooks -------------------------------------------------------------
    def build(self):
        raise NotImplementedError

    def entities(self):
        return []

    def initial_events(self):
        return []

    def observe(self, i):
        pass

    def final(self):
        self.observe(None)

    def do(self, worker, op):
        return None

    # -------------------------------------------------------------------
    def trace(self, s):
        if self.verbose:
            print("  " + s)

    def fail(self, fp, desc):
        if self.viol is None:
            self.viol = (f"{self.component}/{fp}", desc)
            self.trace("!! " + self.viol[0] + ": " + desc)

    def spawn(self, script, op):
        return Event(time=script.now, event_type="do", target=self.worker, context={"metadata": {"op": op}})

    def run(self):
        ents = [self.script, self.final_ent, self.worker] + self.entities()
        horizon = (self.start_tick + self.max_len + self.settle + 2) * TICK
        sim = Simulation(entities=ents, end_time=Instant(horizon))
        self.sim_ref = sim
        sim.schedule(list(self.initial_events()) + [
            Event(time=Instant(self.start_tick * TICK), event_type="tick", target=self.script,
                  context={"metadata": {"i": self.start_tick}})])
        with MQ.pinned_uuid():
            res = run_guarded(sim, max_events=6000, storm=500)
        if res["outcome"] in ("storm", "horizon") and self.viol is None and not self.finished:
            self.fail(f"no-quiescence/{res['outcome']}", f"run did not finish: {res}; ops {self.ops}")
        return self

    def nontrivial(self):
        return bool(self.flags)

    def outcome(self):
        return digest(self.receipts)


# ---------------------------------------------------------------------------
# EventLog
# ---------------------------------------------------------------------------
KEYS = ["k0", "k1", "k2"]
EL_ALPHA = ["a0", "a1", "ae", "an", "aa", "ab", "read", "wait"]


class EventLogWorld(SeqWorld):
    component = "EventLog"
    settle = 4

    def build(self):
        S = _streaming()
        cfg = self.cfg
        ret = cfg["retention"]
        pol = None
        if ret[0] == "size":
            pol = S.SizeRetention(max_records=ret[1])
        elif ret[0] == "time":
            pol = S.TimeRetention(max_age_s=ret[1])
        self.log = S.EventLog("log", num_partitions=cfg["P"], retention_policy=pol, append_latency=0.25,
                              read_latency=0.125, retention_check_interval=cfg.get("interval", 1.5))
        self.appended = []  # completion order: (t, key, partition, offset, value)
        self.issued = 0
        self.key_part = {}
        self.reads = []
        self.nval = 0

    def entities(self):
        return [self.log]

    def applicable(self, i):
        if i >= self.start_tick + self.max_len:
            return ["end"]
        opts = list(EL_ALPHA)
        if i > self.start_tick:
            opts.append("end")
        return opts

    def apply(self, op, script, i):
        self.trace(f"t={i}s  op {op}")
        out = []
        if op in ("a0", "a1", "a2"):
            out.append(self.spawn(script, ("app", KEYS[int(op[1])], self._v())))
        elif op == "ae":
            # the empty string is a key like any other
            out.append(self.spawn(script, ("app", "", self._v())))
        elif op == "an":
            # an Append event that carries no 'key' at all: the log records it under key "" (Record.key == ""),
            # so "a key always maps to the same partition" applies to it as well
            out.append(self.spawn(script, ("appnokey", "", self._v())))
        elif op == "aa":
            out.append(self.spawn(script, ("app", KEYS[0], self._v())))
            out.append(self.spawn(script, ("app", KEYS[1], self._v())))
            self.flags.add("concurrent-append")
        elif op == "ab":
            out.append(self.spawn(script, ("app", KEYS[2], self._v())))
            out.append(self.spawn(script, ("app", KEYS[2], self._v())))
            self.flags.add("concurrent-append")
        elif op == "read":
            for p in range(self.cfg["P"]):
                out.append(self.spawn(script, ("read", p, 0)))
            if self.cfg["P"] >= 1:
                out.append(self.spawn(script, ("read", 0, 1)))
        return out

    def _v(self):
        self.nval += 1
        return self.nval

    def do(self, worker, op):
        if op[0] == "app":
            _, key, val = op
            rec = yield from self.log.append(key, val)
            now = worker.now.nanoseconds
            self.transitions += 1
            self.trace(f"t={now / TICK:g}s  append({key}, v{val}) -> partition {rec.partition} offset {rec.offset}")
            self.on_append(now, key, val, rec)
        elif op[0] == "appnokey":
            from happysimulator.core.sim_future import SimFuture
            _, key, val = op
            reply = SimFuture()
            yield 0.0, [Event(time=worker.now, event_type="Append", target=self.log,
                              context={"value": val, "reply_future": reply})]
            rec = yield reply
            now = worker.now.nanoseconds
            self.transitions += 1
            self.trace(f"t={now / TICK:g}s  Append event without key (v{val}) -> key {rec.key!r} partition "
                       f"{rec.partition} offset {rec.offset}")
            self.on_append(now, rec.key, val, rec)
        else:
            _, p, off = op
            recs = yield from self.log.read(p, off, 100)
            now = worker.now.nanoseconds
            self.transitions += 1
            self.trace(f"t={now / TICK:g}s  read(partition {p}, from {off}) -> offsets {[r.offset for r in recs]}")
            self.on_read(now, p, off, recs)
        return None

    def on_append(self, now, key, val, rec):
        if self.viol is not None:
            return
        prev = [a for a in self.appended if a[2] == rec.partition]
        self.appended.append((now, key, rec.partition, rec.offset, val))
        self.receipts.append(("app", now, key, rec.partition, rec.offset))
        if key in self.key_part and self.key_part[key] != rec.partition:
            self.fail("key-partition/changed",
                      f"key {key} was appended to partition {self.key_part[key]} and now to {rec.partition}; ops {self.ops}")
            return
        self.key_part[key] = rec.partition
        if rec.key != key or rec.value != val:
            self.fail("append/record-mismatch", f"append({key}, {val}) returned {rec}; ops {self.ops}")
            return
        expect = len(prev)
        if rec.offset != expect:
            shape = "gap" if rec.offset > expect else "reused"
            self.fail(f"offsets/append-not-consecutive/{shape}",
                      f"append #{expect + 1} to partition {rec.partition} got offset {rec.offset}, expected {expect} "
                      f"(earlier offsets {[a[3] for a in prev]}); ops {self.ops}")

    def on_read(self, now, p, off, recs):
        if self.viol is not None:
            return
        offs = [r.offset for r in recs]
        self.receipts.append(("read", now, p, off, tuple(offs)))
        mine = {a[3]: a for a in self.appended if a[2] == p}
        for a, b in zip(offs, offs[1:]):
            if b != a + 1:
                self.fail("offsets/read-gap" if b > a else "offsets/read-not-increasing",
                          f"read(partition {p}, from {off}) returned offsets {offs}; ops {self.ops}")
                return
        for r in recs:
            if r.partition != p or r.offset < off:
                self.fail("read/wrong-record", f"read(partition {p}, from {off}) returned {r}; ops {self.ops}")
                return
            a = mine.get(r.offset)
            if a is None or a[1] != r.key or a[4] != r.value:
                self.fail("offsets/read-mismatch",
                          f"read(partition {p}) returned {r} but offset {r.offset} was assigned to {a}; ops {self.ops}")
                return
        if offs and mine and offs[-1] != max(mine):
            self.fail("offsets/read-tail-missing",
                      f"read(partition {p}, from {off}) returned offsets {offs} but offset {max(mine)} was already "
                      f"assigned; ops {self.ops}")

    def observe(self, i):
        if self.viol is not None:
            return
        for p in range(self.cfg["P"]):
            n = sum(1 for a in self.appended if a[2] == p)
            hw = self.log.high_watermark(p)
            if hw != n:
                self.fail("offsets/high-watermark",
                          f"partition {p}: {n} appends completed but high_watermark={hw}; ops {self.ops}")
                return
        if self.log.stats.records_expired > 0:
            self.flags.add("expired")

    def final(self):
        self.observe(None)
        if self.viol is None and len(self.appended) != self.nval:
            self.fail("append/not-completed", f"{self.nval} appends issued, {len(self.appended)} completed; ops {self.ops}")


# ---------------------------------------------------------------------------
# ConsumerGroup: membership
# ---------------------------------------------------------------------------
def _strategy(name):
    S = _streaming()
    return {"Range": S.RangeAssignment, "RoundRobin": S.RoundRobinAssignment, "Sticky": S.StickyAssignment}[name]()


class GroupWorld(SeqWorld):
    component = "ConsumerGroup"
    settle = 4

    def build(self):
        S = _streaming()
        cfg = self.cfg
        self.log = S.EventLog("log", num_partitions=cfg["P"])
        self.group = S.ConsumerGroup("g", self.log, assignment_strategy=_strategy(cfg["strategy"]),
                                     rebalance_delay=cfg["rdelay"], poll_latency=0.125)
        self.members = set()  # harness view (at issue time)
        self.ever = set()
        self.pending = 0

    def entities(self):
        return [self.log, self.group]

    def applicable(self, i):
        if i >= self.max_len:
            return ["end"]
        opts = []
        for m in "ABC":
            if self.cfg.get("full"):
                opts += ["j" + m, "l" + m]
            else:
                opts.append(("l" if m in self.members else "j") + m)
        opts.append("wait")
        if i > 0:
            opts.append("end")
        return opts

    def apply(self, op, script, i):
        if op == "wait":
            self.trace(f"t={i}s  op wait   (pending rebalances: {self.pending})")
            return []
        m = op[1]
        self.trace(f"t={i}s  op {'join' if op[0] == 'j' else 'leave'} {m}   (pending rebalances: {self.pending})")
        if self.pending:
            self.flags.add("overlap")
        if op[0] == "j":
            if m in self.ever:
                self.flags.add("rejoin")
            self.members.add(m)
            self.ever.add(m)
        else:
            self.members.discard(m)
        if len(self.members) >= 2:
            self.flags.add("two-members")
        self.pending += 1
        return [self.spawn(script, (op[0], m))]

    def do(self, worker, op):
        kind, m = op
        g = self.group
        parts = None
        if kind == "j":
            parts = yield from g.join(m, worker)
        else:
            yield from g.leave(m)
        self.pending -= 1
        self.transitions += 1
        self.after_rebalance(worker.now.nanoseconds, kind, m, parts)
        return None

    def after_rebalance(self, now, kind, m, parts):
        if self.viol is not None:
            return
        g = self.group
        asg = g.assignments
        members = list(g.consumers)
        self.receipts.append((now, kind, m, tuple(sorted((k, tuple(v)) for k, v in asg.items()))))
        self.trace(f"t={now / TICK:g}s  rebalance after {'join' if kind == 'j' else 'leave'} {m}: members={members} "
                   f"assignments={asg} generation={g.generation}")
        self.check_owners(now, f"the rebalance at {now}ns")
        if self.viol is None and kind == "j" and parts is not None and m in members \
                and sorted(parts) != sorted(asg.get(m, [])):
            self.fail(f"one-owner/join-reply-differs/{self.cfg['strategy']}",
                      f"join({m}) returned {parts} but assignments[{m}]={asg.get(m)}; ops {self.ops}")

    def observe(self, i):
        # every join / leave call has returned: all rebalances have settled
        if self.viol is None and self.pending == 0 and i is not None:
            self.check_owners(i * TICK, f"all rebalances settled (t={i}s)")

    def check_owners(self, now, when):
        g = self.group
        asg = g.assignments
        members = list(g.consumers)
        strat = self.cfg["strategy"]
        if not members:
            return
        owners = {}
        for name, ps in asg.items():
            for p in ps:
                owners.setdefault(p, []).append(name)
        for p in range(self.cfg["P"]):
            o = owners.get(p, [])
            if not o:
                self.fail(f"one-owner/unowned/{strat}",
                          f"after {when} partition {p} has no owner: members={members} "
                          f"assignments={asg}; ops {self.ops}")
                return
            if len(o) > 1:
                self.fail(f"one-owner/multiply-owned/{strat}",
                          f"after {when} partition {p} is owned by {o}: assignments={asg}; ops {self.ops}")
                return
            if o[0] not in members:
                self.fail(f"one-owner/owner-not-member/{strat}",
                          f"after {when} partition {p} belongs to {o[0]}, not a member "
                          f"({members}); ops {self.ops}")
                return
        for p in owners:
            if not (0 <= p < self.cfg["P"]):
                self.fail(f"one-owner/unknown-partition/{strat}", f"assignments={asg}; ops {self.ops}")
                return

    def final(self):
        if self.viol is None and self.pending:
            self.fail("rebalance/not-completed", f"{self.pending} join/leave calls never returned; ops {self.ops}")
        if self.viol is None:
            self.check_owners(10 ** 15, "all rebalances settled (end of the sequence)")


# ---------------------------------------------------------------------------
# ConsumerGroup: commits
# ---------------------------------------------------------------------------
class _ByName:
    """Sharding strategy (public constructor parameter of EventLog): key 'p<k>' goes to partition k."""

    def get_shard(self, key, num_shards):
        return int(key[1:]) % num_shards


_NONOWNER = {}


def nonowner_commit_accepted():
    """Calibration probe through the public API, once per process: does the library under test apply a commit
    for a partition the committing member does not currently own (HEAD does: the Commit handler has no ownership
    check and commit() has no failure channel)?  If it does, such late commits count towards the value below
    which that member's committed offset must never fall; if a library refuses them, only commits issued by the
    owner count."""
    if "v" not in _NONOWNER:
        w = CommitWorld({"P": 1, "strategy": "Range", "probe": True}, Forced(), forced=["jB", "cB2", "lA"], max_len=3)
        w.run()
        _NONOWNER["v"] = any(m == "B" and c == 2 for snap in w.receipts[-1:] for (m, _p, c) in snap)
    return _NONOWNER["v"]


class CommitWorld(SeqWorld):
    component = "ConsumerGroup"
    settle = 2
    NREC = 3  # records per partition appended before the first operation

    def build(self):
        S = _streaming()
        cfg = self.cfg
        self.log = S.EventLog("log", num_partitions=cfg["P"], sharding_strategy=_ByName(), append_latency=0.125)
        self.group = S.ConsumerGroup("g", self.log, assignment_strategy=_strategy(cfg["strategy"]),
                                     rebalance_delay=0.25, poll_latency=0.125)
        self.start_tick = 1
        self.last = {}  # (member, pid) -> last observed committed offset
        self.maxcommit = {}
        self.stale = set()
        self.cause = "start"
        self.commits = []  # (issue time, member, pid, offset, member owned pid at issue time)
        self.owned = {}  # (member, pid) -> 'own' | 'lost' | 'regained'
        self.polled = []

    def entities(self):
        return [self.log, self.group]

    def initial_events(self):
        evs = [Event(time=Instant(0), event_type="do", target=self.worker, context={"metadata": {"op": ("j", "A")}})]
        for p in range(self.cfg["P"]):
            for k in range(self.NREC):
                evs.append(Event(time=Instant(k), event_type="do", target=self.worker,
                                 context={"metadata": {"op": ("app", f"p{p}")}}))
        return evs

    def alphabet(self):
        return self.cfg.get("alpha") or ["cA1", "cA2", "cA3", "cB1", "cB3", "jB", "lB", "lA", "jA", "pA"]

    def applicable(self, i):
        if i >= self.start_tick + self.max_len:
            return ["end"]
        opts = list(self.alphabet())
        if self.cfg.get("probe"):
            opts.append("cB2")
        if i > self.start_tick:
            opts.append("end")
        return opts

    def apply(self, op, script, i):
        self.trace(f"t={i}s  op {op}   (assignments {self.group.assignments})")
        self.cause = "commit" if op[0] == "c" else "rebalance"
        if op[0] == "c":
            m, off = op[1], int(op[2])
            if off < self.maxcommit.get(m, -1):
                self.flags.add("stale-commit")
                self.stale.add(m)
            self.maxcommit[m] = max(off, self.maxcommit.get(m, -1))
            mine = self.group.assignments.get(m, [])
            for p in range(self.cfg["P"]):
                self.commits.append((script.now.nanoseconds, m, p, off, p in mine))
                if p not in mine:
                    self.flags.add("commit-for-partition-not-owned")
            return [self.spawn(script, ("c", m, off))]
        if op[0] == "p":
            return [self.spawn(script, ("p", op[1], script.now.nanoseconds))]
        return [self.spawn(script, (op[0], op[1]))]

    def do(self, worker, op):
        g = self.group
        if op[0] == "j":
            yield from g.join(op[1], worker)
        elif op[0] == "l":
            yield from g.leave(op[1])
        elif op[0] == "app":
            yield from self.log.append(op[1], "v")
            return None
        elif op[0] == "p":
            _, m, issued = op
            recs = yield from g.poll(m, 100)
            got = [(r.partition, r.offset) for r in recs]
            self.polled.append((worker.now.nanoseconds, m, tuple(got)))
            self.trace(f"t={worker.now.nanoseconds / TICK:g}s  poll({m}) -> (partition, offset) {got}")
            self.check_poll(m, issued, got)
        else:
            _, m, off = op
            yield from g.commit(m, {p: off for p in range(self.cfg["P"])})
        self.transitions += 1
        return None

    def floor(self, m, pid, before):
        """Highest offset member m has committed for pid in commits issued before ``before`` that count."""
        late_ok = None
        best = None
        for (t, cm, cp, off, owned) in self.commits:
            if cm != m or cp != pid or t >= before:
                continue
            if not owned:
                if late_ok is None:
                    late_ok = nonowner_commit_accepted()
                if not late_ok:
                    continue
            if best is None or off > best:
                best = off
        return best

    def check_poll(self, m, issued, got):
        if self.viol is not None or self.cfg.get("probe"):
            return
        for (p, o) in got:
            fl = self.floor(m, p, issued)
            if fl is not None and o < fl:
                self.fail(f"poll/redelivered-below-committed/{self.owned.get((m, p), 'own')}",
                          f"member {m} committed offset {fl} for partition {p} but poll() handed it offset {o} "
                          f"again: {got}; ops {self.ops}")
                return

    def observe(self, i):
        if self.viol is not None:
            return
        g = self.group
        now = i * TICK if i is not None else 10 ** 15
        snap = []
        asg = g.assignments
        for (m, pid), stt in list(self.owned.items()):
            if stt in ("own", "regained") and pid not in asg.get(m, []):
                self.owned[(m, pid)] = "lost"
        for m in g.consumers:
            lag = g.consumer_lag(m)
            for pid, lg in sorted(lag.items()):
                committed = self.log.high_watermark(pid) - lg
                snap.append((m, pid, committed))
                key = (m, pid)
                if self.owned.get(key) == "lost":
                    self.owned[key] = "regained"
                    self.flags.add("ownership-round-trip")
                self.owned.setdefault(key, "own")
                if self.cfg.get("probe"):
                    continue
                if key in self.last and committed < self.last[key]:
                    shape = "stale-commit" if m in self.stale else "no-stale-commit"
                    if self.owned[key] == "regained":
                        shape = "after-ownership-round-trip"
                    self.fail(f"committed-offset/moved-backwards/{shape}",
                              f"committed offset of member {m} for partition {pid} went from {self.last[key]} to "
                              f"{committed} (consumer_lag); ops {self.ops}")
                    return
                fl = self.floor(m, pid, now)
                if fl is not None and committed < fl:
                    shape = "after-ownership-round-trip" if self.owned[key] == "regained" else "below-own-commit"
                    self.fail(f"committed-offset/moved-backwards/{shape}",
                              f"member {m} committed offset {fl} for partition {pid} (commits {[c for c in self.commits if c[1] == m and c[2] == pid]}) "
                              f"but its committed offset is now {committed} (consumer_lag); ops {self.ops}")
                    return
                self.last[key] = committed
        self.receipts.append(tuple(snap))
        self.trace(f"     committed (member, partition, offset): {snap}")

    def outcome(self):
        return digest((self.receipts, self.polled))


# ---------------------------------------------------------------------------
# OutboxRelay
# ---------------------------------------------------------------------------
class Sink(Entity):
    def __init__(self, name, w):
        super().__init__(name)
        self.w = w

    def handle_event(self, event):
        return self.w.on_sink(self, event)


class OutboxWorld(SeqWorld):
    component = "OutboxRelay"

    def build(self):
        from happysimulator.components.microservice.outbox_relay import OutboxRelay
        cfg = self.cfg
        self.sink = Sink("sink", self)
        self.ob = OutboxRelay("ob", downstream=self.sink, poll_interval=1.5, batch_size=cfg["batch"],
                              relay_latency=cfg["lat"])
        self.written = []
        self.settle = 3 + 2 * (2 * self.max_len // cfg["batch"] + 1)

    def entities(self):
        return [self.ob, self.sink]

    def applicable(self, i):
        if i >= self.max_len:
            return ["end"]
        return ["w", "ww", "wait"] + (["end"] if i > 0 else [])

    def apply(self, op, script, i):
        self.trace(f"t={i}s  op {op}   (outbox pending={self.ob.pending_count})")
        for _ in range({"w": 1, "ww": 2, "wait": 0}[op]):
            if self.ob.pending_count > 0:
                self.flags.add("backlog")
            eid = self.ob.write({"n": len(self.written)})
            self.written.append((eid, script.now.nanoseconds))
        if op == "wait":
            return []
        # documented usage: write() cannot schedule anything itself; any non-poll event sent to the
        # outbox (re)primes its poll loop when none is scheduled
        return [Event(time=script.now, event_type="kick", target=self.ob)]

    def on_sink(self, sink, event):
        if event.event_type != "outbox_relay":
            return None
        eid = event.context["metadata"]["entry_id"]
        now = sink.now.nanoseconds
        self.receipts.append((now, eid))
        self.transitions += 1
        self.trace(f"t={now / TICK:g}s  downstream RECEIVES entry {eid}")
        return None

    def final(self):
        if self.viol is not None:
            return
        latc = "latency>0" if self.cfg["lat"] else "latency=0"
        got = [e for _, e in self.receipts]
        st = self.ob.stats
        for eid, t in self.written:
            if got.count(eid) > 1:
                self.fail("relay-duplicate",
                          f"entry {eid} reached the downstream entity {got.count(eid)} times; ops {self.ops}")
                return
        if st.entries_relayed > len(self.written):
            self.fail("relay-duplicate",
                      f"{len(self.written)} entries written but stats.entries_relayed={st.entries_relayed}: an entry "
                      f"was relayed twice; ops {self.ops}")
            return
        for eid, t in self.written:
            if got.count(eid) == 0:
                self.fail(f"relay-not-received/{latc}",
                          f"entry {eid} written at {t}ns never reached the downstream entity (stats: relayed="
                          f"{st.entries_relayed}, pending={self.ob.pending_count}); ops {self.ops}")
                return
        if got != sorted(got):
            self.fail("relay-order", f"entries reached the downstream entity in order {got}; ops {self.ops}")


# ---------------------------------------------------------------------------
# IdempotencyStore
# ---------------------------------------------------------------------------
class IdemWorld(SeqWorld):
    component = "IdempotencyStore"
    settle = 4
    TTL_NS = 1_750_000_000

    def build(self):
        from happysimulator.components.microservice.idempotency_store import IdempotencyStore
        self.sink = Sink("svc", self)
        self.store = IdempotencyStore("idem", target=self.sink, key_extractor=lambda e: e.context.get("idem"),
                                      ttl=1.75, cleanup_interval=0.75)
        self.sent = []  # (tag, key, t)
        self.handled = {}  # tag -> [start, finish]

    def entities(self):
        return [self.store, self.sink]

    def applicable(self, i):
        if i >= self.max_len:
            return ["end"]
        return ["k1", "k2", "n", "wait"] + (["end"] if i > 0 else [])

    def apply(self, op, script, i):
        self.trace(f"t={i}s  op {op}")
        if op == "wait":
            return []
        key = None if op == "n" else op
        tag = len(self.sent)
        if key is not None and any(k == key for _, k, _ in self.sent):
            self.flags.add("duplicate-key")
        self.sent.append((tag, key, script.now.nanoseconds))
        return [Event(time=script.now, event_type="req", target=self.store,
                      context={"idem": key, "metadata": {"tag": tag}})]

    def on_sink(self, sink, event):
        if event.event_type != "req":
            return None
        return self._serve(sink, event.context["metadata"]["tag"])

    def _serve(self, sink, tag):
        now = sink.now.nanoseconds
        self.handled.setdefault(tag, []).append([now, None])
        slot = self.handled[tag][-1]
        self.transitions += 1
        self.trace(f"t={now / TICK:g}s  service STARTS request {tag}")
        yield self.cfg["service"]
        slot[1] = sink.now.nanoseconds
        return None

    def final(self):
        if self.viol is not None:
            return
        self.receipts = sorted((tag, tuple(map(tuple, v))) for tag, v in self.handled.items())
        fwd = []  # forwarded keyed requests: (key, arrival, finish)
        for tag, key, t in self.sent:
            h = self.handled.get(tag, [])
            if len(h) > 1:
                self.fail("request-duplicated", f"request {tag} reached the service {len(h)} times; ops {self.ops}")
                return
            if key is None:
                if not h:
                    self.fail("request-lost/unkeyed", f"request {tag} without key never reached the service; ops {self.ops}")
                    return
                continue
            blocking = None
            for (k2, a2, f2) in fwd:
                if k2 != key:
                    continue
                if f2 is None or t < f2:
                    blocking = "in-flight"
                elif t < f2 + self.TTL_NS:
                    blocking = "cached"
            expired_possible = any(k2 == key for (k2, _a, _f) in fwd)
            if h:
                if blocking is not None:
                    self.fail(f"duplicate-forwarded/{blocking}",
                              f"request {tag} (key {key}, arrived {t}ns) was forwarded although an earlier request "
                              f"with that key was {blocking}; ops {self.ops}")
                    return
                if h[0][0] != t:
                    self.fail("forwarded-late", f"request {tag} arrived {t}ns, reached the service {h[0][0]}ns; ops {self.ops}")
                    return
                fwd.append((key, t, h[0][1]))
            elif blocking is None and not expired_possible:
                self.fail("request-lost/keyed",
                          f"request {tag} (first use of key {key}) never reached the service; ops {self.ops}")
                return
            elif blocking is None:
                # the earlier entry was old enough to expire but the sweep had not run yet: either answer is fine
                pass


# ---------------------------------------------------------------------------
# StreamProcessor (tumbling windows, in-order event times)
# ---------------------------------------------------------------------------
class StreamWorld(SeqWorld):
    component = "StreamProcessor"
    settle = 7
    SIZE = 2

    def build(self):
        S = _streaming()
        self.sink = Sink("down", self)
        self.proc = S.StreamProcessor("sp", window_type=S.TumblingWindow(size_s=float(self.SIZE)),
                                      aggregate_fn=lambda recs: sorted(recs), downstream=self.sink,
                                      watermark_interval_s=1.0)
        self.sent = []  # (n, key, window_start)

    def entities(self):
        return [self.proc, self.sink]

    def initial_events(self):
        # first record at 0.5 s: the processor's watermark timer then ticks at x.5 s, never on an operation instant
        self.sent.append((0, "a", 0))
        return [Event(time=Instant(TICK // 2), event_type="Process", target=self.proc, context={"key": "a", "value": 0})]

    def applicable(self, i):
        if i >= self.start_tick + self.max_len:
            return ["end"]
        return ["pa", "pb", "paa", "wait"] + (["end"] if i > self.start_tick else [])

    def apply(self, op, script, i):
        self.trace(f"t={i}s  op {op}")
        out = []
        keys = {"pa": ["a"], "pb": ["b"], "paa": ["a", "a"], "wait": []}[op]
        for k in keys:
            n = len(self.sent)
            ws = (i // self.SIZE) * self.SIZE
            if any(s[1] == k and s[2] == ws for s in self.sent):
                self.flags.add("shared-window")
            self.sent.append((n, k, ws))
            out.append(Event(time=script.now, event_type="Process", target=self.proc, context={"key": k, "value": n}))
        return out

    def on_sink(self, sink, event):
        if event.event_type != "WindowResult":
            return None
        c = event.context
        now = sink.now.nanoseconds
        self.transitions += 1
        self.receipts.append((now, c["key"], c["window_start"], c["window_end"], tuple(c["result"]), c["record_count"]))
        self.trace(f"t={now / TICK:g}s  downstream RECEIVES window {c['key']} [{c['window_start']}, {c['window_end']}) "
                   f"records {c['result']}")
        return None

    def final(self):
        if self.viol is not None:
            return
        expect = {}
        for n, k, ws in self.sent:
            expect.setdefault((k, float(ws)), []).append(n)
        seen = {}
        for (_t, k, ws, _we, res, cnt) in self.receipts:
            if (k, ws) in seen:
                self.fail("window-result/duplicate", f"window {k} [{ws}) emitted twice; ops {self.ops}")
                return
            seen[(k, ws)] = list(res)
        for kw, ns_ in expect.items():
            if kw not in seen:
                self.fail("window-result/missing",
                          f"window {kw} with records {ns_} was never delivered downstream although the watermark passed "
                          f"its end; ops {self.ops}")
                return
            if sorted(seen[kw]) != sorted(ns_):
                self.fail("window-result/records-differ",
                          f"window {kw} delivered records {seen[kw]}, processed {ns_}; ops {self.ops}")
                return
        for kw in seen:
            if kw not in expect:
                self.fail("window-result/unexpected", f"window {kw} delivered but nothing was processed for it; ops {self.ops}")
                return


MQ.WORLDS.update({"eventlog": EventLogWorld, "group": GroupWorld, "commit": CommitWorld,
                  "outbox": OutboxWorld, "idem": IdemWorld, "stream": StreamWorld})

explore_space = MQ.explore_space
replay_world = MQ.replay_world


def _prefix_jobs(kind, cfg, alpha, plen, n):
    jobs = []
    if plen > 1:
        jobs.append((kind, cfg, (), plen - 1))
    for pre in itertools.product(alpha, repeat=plen):
        jobs.append((kind, cfg, pre, n))
    return jobs


def jobs(name, tier):
    quick = tier == "quick"
    out = []
    if name == "eventlog":
        n = 4 if quick else 5
        rets = [("none",), ("size", 1), ("size", 2), ("time", 1.5), ("time", 3.0)]
        alpha = list(EL_ALPHA)
        for P in (1, 2, 3):
            for ret in rets:
                out += _prefix_jobs("eventlog", {"P": P, "retention": ret, "interval": 1.5}, alpha, 1 if quick else 2, n)
        bounds = {"max_ops": n, "ops": alpha + ["end"], "partitions": [1, 2, 3], "retention": rets,
                  "retention_check_interval_s": 1.5, "append_latency_s": 0.25, "read_latency_s": 0.125, "keys": KEYS + ["", "<Append event without key>"]}
    elif name == "group":
        # quick: membership toggles (join a non-member / leave a member; a name that left may re-join) + wait, <= 6 ops.
        # thorough: the same <= 7 ops, plus the full alphabet incl. redundant joins / leaves + wait, <= 4 ops.
        fams = [(False, 6, 1)] if quick else [(False, 7, 2), (True, 4, 2)]
        alpha = [a + m for m in "ABC" for a in "jl"] + ["wait"]
        for full, n, plen in fams:
            for P in (1, 2, 3, 4):
                for strat in ("Range", "RoundRobin", "Sticky"):
                    for rdelay in (0.0, 0.25, 1.5):
                        cfg = {"P": P, "strategy": strat, "rdelay": rdelay, "full": full}
                        out += _prefix_jobs("group", cfg, alpha, plen, n)
        bounds = {"members": 3, "families (redundant joins/leaves allowed, max_ops)": [[f, n] for f, n, _ in fams],
                  "partitions": [1, 2, 3, 4], "strategies": ["Range", "RoundRobin", "Sticky"],
                  "rebalance_delay_s": [0.0, 0.25, 1.5],
                  "ops": "join / leave per member (a name that left may join again) + wait (a quiet tick)"}
    elif name == "commit":
        n = 4 if quick else 5
        alpha = ["cA1", "cA2", "cA3", "cB1", "cB3", "jB", "lB", "lA", "jA", "pA"] + ([] if quick else ["pB"])
        for P in (1, 2):
            for strat in ("Range", "Sticky"):
                out += _prefix_jobs("commit", {"P": P, "strategy": strat, "alpha": alpha}, alpha, 1, n)
        bounds = {"max_ops": n, "ops": alpha + ["end"], "partitions": [1, 2], "strategies": ["Range", "Sticky"],
                  "records_per_partition": CommitWorld.NREC,
                  "ops_meaning": "c<M><o>: member M commits offset o for every partition (also partitions it does "
                                 "not own: late commit); p<M>: member M polls; j/l: join / leave"}
    elif name == "outbox":
        n = 6
        alpha = ["w", "ww", "wait"]
        for batch in (1, 2):
            for lat in (0.0, 0.25):
                out += _prefix_jobs("outbox", {"batch": batch, "lat": lat}, alpha, 1, n)
        bounds = {"max_ops": n, "ops": alpha + ["end"], "batch_size": [1, 2], "relay_latency_s": [0.0, 0.25],
                  "poll_interval_s": 1.5}
    elif name == "idem":
        n = 6
        alpha = ["k1", "k2", "n", "wait"]
        for service in (0.0, 1.5):
            out += _prefix_jobs("idem", {"service": service}, alpha, 1, n)
        bounds = {"max_ops": n, "ops": alpha + ["end"], "service_time_s": [0.0, 1.5], "ttl_s": 1.75, "cleanup_interval_s": 0.75}
    elif name == "stream":
        n = 6
        alpha = ["pa", "pb", "paa", "wait"]
        out += _prefix_jobs("stream", {}, alpha, 1, n)
        bounds = {"max_ops": n, "ops": alpha + ["end"], "window": "tumbling 2 s", "watermark_interval_s": 1.0}
    else:
        raise KeyError(name)
    return out, bounds

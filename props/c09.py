"""C09 — capacity primitives never over-admit or leak, wake in order, and let time pass.

Engine E2 (small-scope, exhaustive): every driver closes one primitive of
``happysimulator`` with n harness worker processes that live inside a REAL
``Simulation`` (``acquire -> hold h ticks -> release``) and enumerates ALL
combinations of worker count, amounts / kinds, hold times, arrival offsets
(simultaneous included, plus an optional zero-delay hop that flips same-instant
tie orders) and primitive configurations.  The oracle works on

* the workers' own log (request / grant / release, in delivery order),
* the primitive's PUBLIC counters sampled after every delivery
  (``sim.control.on_event``) and at every clock advance (``on_time_advance``),
* the run outcome of ``run_guarded`` (a frozen-clock delivery storm is an
  observed outcome, never a hang).

Oracle clauses (each tied to a phrase of the statement):

over-admit      "never has more outstanding holders or amount than its limit (a writer
                excludes everyone, readers exclude writers)"        [log + counters]
conservation    "held plus available always equals capacity"          [counters vs log]
above-capacity  "a release never pushes it above capacity"             [counters]
fifo            "blocked acquirers are granted in arrival order"       [log; only BLOCKED
                acquirers are ordered, barging by a fresh arrival is not flagged]
granted-twice   "each at most once"                                     [log]
grant-late      "as soon as capacity allows": at a clock advance the head-of-line blocked
                acquirer would fit next to the current holders, yet was not granted
busy-wait       "waiting consumes no simulated activity": a blocked worker's process is
                resumed and is still blocked afterwards
frozen-clock    "so the clock advances to the release": delivery storm at one instant
starved         "every waiter whose predecessor releases is eventually served": the run
                ended, everybody released, a waiter was never granted
"""
from __future__ import annotations

import itertools
import time

from mc.evidence import Run, digest
from mc.harness import Entity, Event, Fwd, Instant, Simulation, pmap, rotate, run_guarded

from happysimulator.components.client.connection_pool import ConnectionPool  # noqa: E402
from happysimulator.components.industrial.preemptible_resource import PreemptibleResource  # noqa: E402
from happysimulator.components.resilience.bulkhead import Bulkhead  # noqa: E402
from happysimulator.components.resource import Resource  # noqa: E402
from happysimulator.components.server.concurrency import (  # noqa: E402
    DynamicConcurrency,
    FixedConcurrency,
    WeightedConcurrency,
)
from happysimulator.components.server.server import Server  # noqa: E402
from happysimulator.components.server.thread_pool import ThreadPool  # noqa: E402
from happysimulator.components.sync import Barrier, Condition, Mutex, RWLock, Semaphore  # noqa: E402
from happysimulator.distributions.constant import ConstantLatency  # noqa: E402

PID = "C09"
TICK = 1_000_000_000  # one tick = 1 s: worker delays are float(h) seconds, exact in ns
STORM = 120  # deliveries at one instant; legitimate runs stay below 60 (measured, see evidence)
MAX_EVENTS = 6000



def tk(t_ns):
    """nanoseconds -> '<ticks>t' (fractions only appear with the pool's poll interval)."""
    return f"{t_ns / TICK:g}t"


IDLE, WAIT, HOLD, DONE, TIMEOUT, FAILED, CWAIT = "idle", "wait", "hold", "done", "timeout", "failed", "cwait"


# ---------------------------------------------------------------------------
# world: worker states, log, generic oracle
# ---------------------------------------------------------------------------
class WS:
    """State of one worker (= one competing process / request)."""

    __slots__ = ("idx", "off", "kind", "amt", "hold", "hop", "prio", "preempt", "rounds",
                 "state", "prev", "blocked", "t_req", "t_grant", "t_rel", "s_req", "s_grant",
                 "spins", "token", "expiry", "grants", "preempted", "name", "cw_resumes", "cw_epoch", "prev_epoch")

    def __init__(self, idx, spec):
        self.idx = idx
        self.off, self.kind, self.amt, self.hold, self.hop = spec[:5]
        self.prio = spec[5] if len(spec) > 5 else 0
        self.preempt = bool(spec[6]) if len(spec) > 6 else False
        self.rounds = 1
        self.state = self.prev = IDLE
        self.blocked = None
        self.t_req = self.t_grant = self.t_rel = None
        self.s_req = self.s_grant = None
        self.spins = 0
        self.token = None
        self.expiry = None
        self.grants = 0
        self.preempted = False
        self.cw_resumes = 0
        self.cw_epoch = self.prev_epoch = 0  # one epoch per Condition.wait() call
        self.name = f"w{idx}"


class Proc(Entity):
    """Harness worker process: the generator returned by the adapter's script."""

    def __init__(self, name, world, ws):
        super().__init__(name)
        self.world = world
        self.ws = ws

    def handle_event(self, event):
        return self.world.ad.script(self.world, self.ws)


def delegate(gen, after_first):
    """``yield from gen`` that calls ``after_first()`` once the first step of ``gen`` ran
    (used to read the primitive's public ``waiters`` counter right after the enqueue
    decision).  Values / sends are passed through unchanged."""
    try:
        y = next(gen)
    except StopIteration as e:
        after_first()
        return e.value
    after_first()
    while True:
        s = yield y
        try:
            y = gen.send(s)
        except StopIteration as e:
            return e.value


class World:
    def __init__(self, ad, specs):
        self.ad = ad
        self.ws = [WS(i, s) for i, s in enumerate(specs)]
        self.log = []  # (t_ns, kind, idx, extra)
        self.viol = {}  # (clause, shape) -> desc
        self.clock_ent = None
        self.cur_t = 0
        self.deliveries = 0
        self.max_same = 0
        self._same = 0
        self._last_t = None
        self.by_ent = {}
        self.items = 0  # Condition scenario
        self.consumed = 0
        self.produced = 0
        self.outcome = None
        self.contended = False
        self.pending_fifo = []

    # -- helpers -----------------------------------------------------------
    def now(self):
        return self.clock_ent.now.nanoseconds

    def flag(self, clause, shape, desc, component=None):
        self.viol.setdefault((component or self.ad.name, clause, shape), desc)

    def tie_shape(self, ws=None):
        cands = [ws] if ws is not None else [w for w in self.ws if w.t_req is not None]
        for c in cands:
            if c.t_req is not None and any(o is not c and o.t_req == c.t_req for o in self.ws):
                return "simultaneous-arrivals"
        for c in cands:
            if c.t_req is not None and any(o is not c and o.t_rel is not None and o.t_rel == c.t_req for o in self.ws):
                return "arrival-at-release-instant"
        return "staggered-arrivals"

    def occupying(self):
        return [w for w in self.ws if w.state == HOLD or (w.state == WAIT and w.blocked is False)]

    # -- worker log --------------------------------------------------------
    def req(self, ws):
        ws.state = WAIT
        ws.t_req = self.now()
        ws.s_req = len(self.log)
        ws.blocked = None
        self.log.append((ws.t_req, "req", ws.idx, None))

    def grant(self, ws, token=None):
        ad = self.ad
        now = self.now()
        ad.settle(self, now)
        if ws.grants >= ws.rounds and ws.state != CWAIT:
            self.flag("granted-twice", self.tie_shape(ws),
                      f"{ws.name} was granted again at {tk(now)} although it requested once")
        re_entry = ws.state == CWAIT
        ws.grants += 0 if re_entry else 1
        # fifo: ws overtakes an earlier blocked acquirer that is still waiting
        if ws.blocked and not re_entry and ad.ordered:
            for a in self.ws:
                if (a is not ws and a.state == WAIT and a.blocked and a.s_req < ws.s_req
                        and ad.order_key(a) < ad.order_key(ws) and not ad.expired(a, now)):
                    # the shape class is decided at the end of the run (it looks at what happened to `a`)
                    self.pending_fifo.append((ws, a,
                                              f"blocked {ws.name} (requested at {tk(ws.t_req)}) was granted at {tk(now)} "
                                              f"before earlier blocked {a.name} (requested at {tk(a.t_req)})"))
                    break
        ws.state = HOLD
        ws.t_grant = now
        ws.s_grant = len(self.log)
        ws.token = token
        self.log.append((now, "grant", ws.idx, token if isinstance(token, (int, str)) else None))
        if ws.blocked:
            self.contended = True
        holders = [w for w in self.ws if w.state == HOLD]
        ad.granting = ws
        ok = ad.admissible(holders)
        ad.granting = None
        if not ok:
            self.flag("over-admit", ad.admit_shape(self, ws),
                      f"at {tk(now)} {ws.name} was granted while "
                      f"{[(w.name, w.kind, w.amt) for w in holders if w is not ws]} still held: exceeds {ad.limit_text()}")

    def rel(self, ws):
        ws.t_rel = self.now()
        self.log.append((ws.t_rel, "rel", ws.idx, None))

    def reld(self, ws):
        ws.state = DONE

    def fail(self, ws):
        ws.state = FAILED
        self.contended = True
        self.log.append((self.now(), "fail", ws.idx, None))

    def timeout(self, ws):
        ws.state = TIMEOUT
        self.contended = True
        self.log.append((self.now(), "timeout", ws.idx, None))

    def note(self, ws, kind, extra=None):
        self.log.append((self.now(), kind, ws.idx, extra))

    # -- engine hooks ------------------------------------------------------
    def on_event(self, ev):
        self.deliveries += 1
        t = ev.time.nanoseconds
        if t == self._last_t:
            self._same += 1
        else:
            self._last_t = t
            self._same = 1
        if self._same > self.max_same:
            self.max_same = self._same
        self.cur_t = t
        ad = self.ad
        ad.hook(self, ev)
        ws = self.by_ent.get(id(ev.target))
        if ws is not None and ws.state == ws.prev:
            if ws.state == WAIT and ws.blocked:
                ws.spins += 1
            elif ws.state == CWAIT and ws.cw_epoch == ws.prev_epoch:
                # one resumption per wait() is the notification itself (the waiter then queues on the mutex)
                ws.cw_resumes += 1
                if ws.cw_resumes > 1:
                    ws.spins += 1
        for w in self.ws:
            w.prev = w.state
            w.prev_epoch = w.cw_epoch
        for clause, desc in ad.sample(self):
            self.flag(clause, ad.admit_shape(self, None) if clause == "over-admit" else self.tie_shape(),
                      f"after delivery #{self.deliveries} at {tk(t)}: {desc}")

    def on_time(self, new_time):
        """Clock advance: the state is the final state of the previous instant."""
        ad = self.ad
        prev_t = self.cur_t
        ad.settle(self, prev_t)
        if ad.block_on_time:
            for w in self.ws:
                if w.state == WAIT and w.blocked is None:
                    w.blocked = True
                    self.contended = True
        for clause, desc in ad.at_instant_end(self):
            self.flag(clause, ad.instant_shape(self), f"at the end of instant {tk(prev_t)}: {desc}")
        waiting = [w for w in self.ws if w.state == WAIT and w.blocked and not ad.expired(w, prev_t)]
        if waiting and ad.ordered:
            head = min(waiting, key=ad.order_key)
            if ad.head_fits(self, head):
                self.flag("grant-late", ad.late_shape(self, head),
                          f"at the end of instant {tk(prev_t)} blocked {head.name} ({head.kind}, amount {head.amt}, "
                          f"requested at {tk(head.t_req)}) is first in line and fits next to holders "
                          f"{[(w.name, w.kind, w.amt) for w in self.occupying()]} ({ad.limit_text()}) "
                          f"but has not been granted; the clock moves on to {tk(new_time.nanoseconds)}")

    def resolve_fifo(self):
        for ws, a, desc in self.pending_fifo:
            self.flag("fifo", self.ad.fifo_shape(self, ws, a), desc)
        self.pending_fifo = []

    def finish(self, res):
        ad = self.ad
        self.outcome = res["outcome"]
        self.resolve_fifo()
        if res["outcome"] == "storm":
            self.contended = True
            comp, shape = ad.storm_shape(self)
            self.flag("frozen-clock", shape,
                      f"more than {STORM} deliveries at instant {tk(res['storm_at'])} while "
                      f"{[w.name for w in self.ws if w.state in (WAIT, CWAIT)]} wait: the clock never reaches the release "
                      f"(event types {res.get('storm_types')})", component=comp)
            return
        spinners = [w for w in self.ws if w.spins]
        if spinners:
            w = spinners[0]
            self.flag("busy-wait", ad.spin_shape(self),
                      f"blocked {w.name} was resumed {w.spins} time(s) while still blocked "
                      f"(waiting must not schedule events)")
        if res["outcome"] != "done":
            return
        ad.settle(self, self.cur_t + 10 ** 15)
        left = [w for w in self.ws if w.state in (WAIT, CWAIT) and not ad.expired(w, self.cur_t)]
        starving = ad.starved(self, left)
        if starving:
            w = starving[0]
            self.flag("starved", ad.starved_shape(self, w),
                      f"run ended at {tk(self.cur_t)}, every holder released, but {w.name} "
                      f"(requested at {tk(w.t_req)}) was never served")
        for clause, desc in ad.final(self):
            self.flag(clause, self.tie_shape(), f"at quiescence: {desc}")


# ---------------------------------------------------------------------------
# adapters
# ---------------------------------------------------------------------------
def sem_bounds(W, waiters):
    """(lo, hi) of the amount the primitive must account as held, from the workers' view."""
    held = nb = un = 0
    bl = []
    for w in W.ws:
        if w.state == HOLD:
            held += w.amt
        elif w.state == WAIT:
            if w.blocked is False:
                nb += w.amt
            elif w.blocked:
                bl.append(w.amt)
            else:
                un += w.amt
    bl.sort()
    if waiters is None:
        return held + nb, held + nb + sum(bl) + un
    k = max(0, min(len(bl), len(bl) - waiters))  # blocked waiters already granted internally
    return held + nb + sum(bl[:k]), held + nb + (sum(bl[len(bl) - k:]) if k else 0) + un


def pub(obj, name, default=None):
    try:
        return getattr(obj, name)
    except AttributeError:
        return default


class Adapter:
    name = "?"
    ordered = True  # fifo / grant-late apply
    block_on_time = False
    granting = None  # worker whose grant is being judged (None: head-of-line check at a clock advance)

    def __init__(self, cfg):
        self.cfg = cfg
        self.prim = None

    def build(self, W):
        raise NotImplementedError

    def entry(self, W, ws, proc):
        return proc

    def meta(self, ws):
        return {}

    def admissible(self, occ):
        return sum(w.amt for w in occ) <= self.cap

    def limit_text(self):
        return f"capacity {self.cap}"

    def order_key(self, ws):
        return (0, ws.s_req)

    def head_fits(self, W, head):
        """Clock advance: would the first blocked acquirer fit next to the current holders?"""
        return self.admissible(W.occupying() + [head])

    def extra_events(self, W, when):
        """Harness events besides the arrivals; when = 'first' (created before them) / 'last'."""
        return []

    def sim_kwargs(self):
        return {}

    def instant_shape(self, W):
        return W.tie_shape()

    def wrap_arrival(self, ev, ws):
        return ev

    def expired(self, ws, now):
        return ws.expiry is not None and now >= ws.expiry

    def settle(self, W, now):
        pass

    def hook(self, W, ev):
        pass

    def sample(self, W):
        return ()

    def at_instant_end(self, W):
        return ()

    def final(self, W):
        return ()

    def starved(self, W, left):
        return left

    def starved_shape(self, W, w):
        return W.tie_shape(w)

    def storm_shape(self, W):
        """(component, shape) of a frozen-clock storm."""
        return self.name, "contended-acquire"

    def spin_shape(self, W):
        return "poll-while-blocked"

    def admit_shape(self, W, ws):
        return W.tie_shape(ws)

    def late_shape(self, W, head):
        return W.tie_shape(head)

    def fifo_shape(self, W, ws, a):
        """ws overtook the earlier blocked a."""
        if (a.s_grant is not None and a.s_grant > ws.s_grant and a.t_grant == ws.t_grant
                and not any(k == "rel" for (_t, k, _i, _x) in W.log[ws.s_grant:a.s_grant])):
            # both were admitted by the same release; only their resumption order is reversed
            return "same-release-resumed-out-of-order"
        return W.tie_shape(ws)

    # shared counter check for semaphore-like primitives
    def sem_sample(self, W, cap, avail, waiters):
        out = []
        if avail is None:
            return out
        if avail > cap:
            out.append(("above-capacity", f"available={avail} > capacity={cap}"))
        if avail < 0:
            out.append(("over-admit", f"available={avail} < 0"))
        lo, hi = sem_bounds(W, waiters)
        used = cap - avail
        if not lo <= used <= hi:
            out.append(("conservation",
                        f"capacity-available={used} but the workers' grants/releases account for "
                        f"{lo if lo == hi else (lo, hi)} (held + available != capacity)"))
        return out

    def sem_final(self, W, cap, avail):
        if avail is not None and avail != cap and not any(w.state in (WAIT, HOLD, CWAIT) for w in W.ws):
            return [("conservation", f"all workers released but available={avail} != capacity={cap} (leak)")]
        return []


class ResourceAd(Adapter):
    """kinds: 'acq' / 'try' acquire ``amount``; 'cap' calls the public ``set_capacity(amount)``
    (documented rule: shrinking never revokes grants, what is still held beyond the new capacity is
    absorbed as it is released; so ``available == max(0, capacity - held)`` at all times and no NEW
    grant may push the outstanding amount above the capacity in force)."""

    name = "Resource"

    @property
    def cap(self):
        return pub(self.prim, "capacity", self.cfg["cap"])

    def build(self, W):
        self.prim = Resource("res", self.cfg["cap"])
        self.cap_hist = [(0, self.cfg["cap"])]  # (log position, capacity in force from there on)
        return [self.prim]

    def admissible(self, occ):
        cap = self.cap
        ws = self.granting
        if ws is not None:
            # the grant was decided somewhere between the request and now (the worker observes it one
            # delivery later): judge it against the largest capacity in force in that interval
            caps = [c for (pos, c) in self.cap_hist if pos >= ws.s_req]
            before = [c for (pos, c) in self.cap_hist if pos < ws.s_req]
            cap = max(caps + before[-1:])
        return sum(w.amt for w in occ) <= cap

    def script(self, W, ws):
        res = self.prim
        if ws.kind == "cap":
            W.note(ws, "set_capacity", ws.amt)
            res.set_capacity(ws.amt)
            self.cap_hist.append((len(W.log), ws.amt))
            ws.state = DONE
            return None
        W.req(ws)
        if ws.amt > self.cap:  # documented ValueError: larger than the capacity in force
            try:
                res.acquire(ws.amt)
            except ValueError:
                W.fail(ws)
                return None
            raise AssertionError("acquire(amount > capacity) did not raise")
        if ws.kind == "try":
            g = res.try_acquire(ws.amt)
            if g is None:
                W.fail(ws)
                return None
            ws.blocked = False
        else:
            fut = res.acquire(ws.amt)
            ws.blocked = not fut.is_resolved
            g = yield fut
        W.grant(ws)
        yield float(ws.hold)
        W.rel(ws)
        g.release()
        W.reld(ws)
        return None

    def sample(self, W):
        cap, avail = self.cap, pub(self.prim, "available")
        if avail is None:
            return ()
        out = []
        if avail > cap:
            out.append(("above-capacity", f"available={avail} > capacity={cap}"))
        if avail < 0:
            out.append(("over-admit", f"available={avail} < 0"))
        lo, hi = sem_bounds(W, pub(self.prim, "waiters"))
        if not max(0, cap - hi) <= avail <= max(0, cap - lo):
            out.append(("conservation",
                        f"available={avail} with capacity={cap} but the workers' grants/releases account for "
                        f"{lo if lo == hi else (lo, hi)} held (available != max(0, capacity - held))"))
        return out

    def final(self, W):
        return self.sem_final(W, self.cap, pub(self.prim, "available"))

    def starved(self, W, left):
        # strict FIFO: a head-of-line request larger than the capacity now in force can never be
        # served and legitimately blocks the queue behind it (the statement is silent on that)
        if left and min(left, key=lambda w: w.s_req).amt > self.cap:
            return []
        return left

    def admit_shape(self, W, ws):
        return "after-set-capacity" if any(k == "set_capacity" for (_t, k, _i, _x) in W.log) else W.tie_shape(ws)


class SemaphoreAd(Adapter):
    name = "Semaphore"

    def build(self, W):
        self.cap = self.cfg["cap"]
        self.prim = Semaphore("sem", self.cap)
        return [self.prim]

    tainted = False  # an undetectable surplus release was accepted: the caller broke the protocol

    def admissible(self, occ):
        return self.tainted or sum(w.amt for w in occ) <= self.cap

    def head_fits(self, W, head):
        return not self.tainted and sum(w.amt for w in W.occupying() + [head]) <= self.cap

    def starved(self, W, left):
        # once a non-holder's release was accepted the permits no longer match the holders: a later
        # legitimate release may be refused and a waiter left behind - the caller's fault, not judged
        return [] if self.tainted else left

    def script(self, W, ws):
        sem = self.prim
        if ws.kind == "over":
            # release(amount) by a process that holds nothing.  The semaphore can only notice it when the
            # permits would exceed the capacity: then it must refuse (ValueError) and change nothing -
            # "a release never pushes it above capacity" - also while acquirers are queued.
            av, nw = pub(sem, "available"), pub(sem, "waiters", 0)
            W.note(ws, "over-release", ws.amt)
            try:
                sem.release(ws.amt)
                accepted = True
            except ValueError:
                accepted = False
            ws.state = DONE
            if av is None:
                return None
            if av + ws.amt > self.cap:
                shape = "over-release-with-waiter-queued" if nw else "over-release"
                if accepted:
                    W.flag("above-capacity", shape,
                           f"at {tk(W.now())} release({ws.amt}) by a non-holder was accepted with available={av}, "
                           f"capacity={self.cap}, {nw} waiter(s) queued: {av}+{ws.amt} exceeds the capacity "
                           f"(now available={pub(sem, 'available')}, waiters={pub(sem, 'waiters')})")
                    self.tainted = True
                elif (pub(sem, "available"), pub(sem, "waiters", 0)) != (av, nw):
                    W.flag("conservation", shape, f"a refused release({ws.amt}) changed the state: available {av} -> "
                                                  f"{pub(sem, 'available')}, waiters {nw} -> {pub(sem, 'waiters')}")
            elif accepted:
                self.tainted = True  # fits under the capacity: indistinguishable from a legitimate release
            return None
        W.req(ws)
        if ws.kind == "try":
            if not sem.try_acquire(ws.amt):
                W.fail(ws)
                return None
            ws.blocked = False
        else:
            before = pub(sem, "waiters", 0)

            def first():
                ws.blocked = pub(sem, "waiters", 0) > before

            yield from delegate(sem.acquire(ws.amt), first)
        W.grant(ws)
        yield float(ws.hold)
        W.rel(ws)
        try:
            evs = sem.release(ws.amt)
        except ValueError:
            if not self.tainted:
                raise
            evs = None  # the surplus permits of an earlier accepted non-holder release are in the way
        W.reld(ws)
        return evs

    def sample(self, W):
        av = pub(self.prim, "available")
        if self.tainted:  # after a protocol breach by the caller only the hard bounds are judged
            return [("above-capacity", f"available={av} > capacity={self.cap}")] if av is not None and av > self.cap else ()
        return self.sem_sample(W, self.cap, av, pub(self.prim, "waiters"))

    def final(self, W):
        return () if self.tainted else self.sem_final(W, self.cap, pub(self.prim, "available"))


class MutexAd(Adapter):
    name = "Mutex"
    cap = 1

    def build(self, W):
        self.prim = Mutex("mtx")
        return [self.prim]

    def limit_text(self):
        return "one holder"

    def script(self, W, ws):
        m = self.prim
        W.req(ws)
        if ws.kind == "try":
            if not m.try_acquire(ws.name):
                W.fail(ws)
                return None
            ws.blocked = False
        else:
            before = pub(m, "waiters", 0)

            def first():
                ws.blocked = pub(m, "waiters", 0) > before

            yield from delegate(m.acquire(ws.name), first)
        W.grant(ws)
        yield float(ws.hold)
        W.rel(ws)
        evs = m.release()
        W.reld(ws)
        return evs

    def _avail(self):
        locked = pub(self.prim, "is_locked")
        return None if locked is None else (0 if locked else 1)

    def sample(self, W):
        return self.sem_sample(W, 1, self._avail(), pub(self.prim, "waiters"))

    def final(self, W):
        return self.sem_final(W, 1, self._avail())


class RWLockAd(Adapter):
    name = "RWLock"

    def build(self, W):
        self.maxr = self.cfg["max_readers"]
        self.prim = RWLock("rw", max_readers=self.maxr)
        return [self.prim]

    def limit_text(self):
        return f"one writer XOR readers (max_readers={self.maxr})"

    def admissible(self, occ):
        w = sum(1 for x in occ if x.kind in ("w", "tw"))
        r = len(occ) - w
        if w:
            return w == 1 and r == 0
        return self.maxr is None or r <= self.maxr

    def script(self, W, ws):
        lk = self.prim
        rd = ws.kind in ("r", "tr")
        W.req(ws)
        if ws.kind in ("tr", "tw"):
            ok = lk.try_acquire_read() if rd else lk.try_acquire_write()
            if not ok:
                W.fail(ws)
                return None
            ws.blocked = False
        else:
            before = pub(lk, "waiters", 0)

            def first():
                ws.blocked = pub(lk, "waiters", 0) > before

            yield from delegate(lk.acquire_read() if rd else lk.acquire_write(), first)
        W.grant(ws)
        yield float(ws.hold)
        W.rel(ws)
        evs = lk.release_read() if rd else lk.release_write()
        W.reld(ws)
        return evs

    def sample(self, W):
        lk = self.prim
        wl, ar, nwait = pub(lk, "is_write_locked"), pub(lk, "active_readers"), pub(lk, "waiters")
        if wl is None or ar is None:
            return ()
        out = []
        if wl and ar > 0:
            out.append(("over-admit", f"is_write_locked and active_readers={ar} at once"))
        if self.maxr is not None and ar > self.maxr:
            out.append(("over-admit", f"active_readers={ar} > max_readers={self.maxr}"))
        rh = wh = rnb = wnb = rb = wb = 0
        for w in W.ws:
            rd = w.kind in ("r", "tr")
            if w.state == HOLD:
                rh, wh = rh + rd, wh + (not rd)
            elif w.state == WAIT:
                if w.blocked is False:
                    rnb, wnb = rnb + rd, wnb + (not rd)
                elif w.blocked:
                    rb, wb = rb + rd, wb + (not rd)
        k = rb + wb if nwait is None else max(0, min(rb + wb, rb + wb - nwait))
        if not rh + rnb <= ar <= rh + rnb + min(k, rb):
            out.append(("conservation", f"active_readers={ar} but the workers account for "
                                        f"{(rh + rnb, rh + rnb + min(k, rb))} reader grants"))
        if not min(wh + wnb, 1) <= int(bool(wl)) <= min(wh + wnb + min(k, wb), 1):
            out.append(("conservation", f"is_write_locked={wl} but the workers account for {wh + wnb} writer grant(s)"))
        return out

    def final(self, W):
        lk = self.prim
        if any(w.state in (WAIT, HOLD) for w in W.ws):
            return ()
        if pub(lk, "is_write_locked") or pub(lk, "active_readers", 0):
            return [("conservation", f"all workers released but is_write_locked={lk.is_write_locked}, "
                                     f"active_readers={lk.active_readers} (leak)")]
        return ()

    def storm_shape(self, W):
        # one shape per wait loop of the lock: the first blocked acquirer is a reader or a writer
        waiting = [w for w in W.ws if w.state == WAIT and w.blocked]
        rd = bool(waiting) and min(waiting, key=lambda w: w.s_req).kind == "r"
        return self.name, "blocked-reader" if rd else "blocked-writer"


class BarrierAd(Adapter):
    """kind 'wait': the worker calls ``wait()`` ``rounds`` times (amount = rounds, hold ticks in
    between); kinds 'reset' / 'abort': the worker calls that secondary method once.
    Reference accounting (spec, not implementation): a round collects ``parties`` arrivals and then
    entitles all of them to pass; reset()/abort() entitle every party parked in the incomplete round to
    be released (whether wait() then returns or raises is not judged) and start a fresh round; while
    aborted, a wait() that raises RuntimeError at once is not an arrival."""

    name = "Barrier"
    ordered = False

    def build(self, W):
        self.parties = self.cfg["parties"]
        self.prim = Barrier("bar", self.parties)
        self.in_round = 0  # arrivals of the current, incomplete round
        self.entitled = 0  # releases the spec allows/demands so far
        self.arrivals = 0
        self.passes = 0
        self.secondary = False
        for w in W.ws:
            w.rounds = w.amt
        return [self.prim]

    def limit_text(self):
        return f"{self.parties} parties"

    def admissible(self, occ):
        return True

    def _arrive(self):
        self.arrivals += 1
        self.in_round += 1
        if self.in_round >= self.parties:
            self.entitled += self.in_round
            self.in_round = 0

    def script(self, W, ws):
        b = self.prim
        if ws.kind in ("reset", "abort"):
            W.note(ws, ws.kind)
            self.secondary = True
            self.entitled += self.in_round  # every parked party must be released now
            self.in_round = 0
            b.reset() if ws.kind == "reset" else b.abort()
            ws.state = DONE
            return None
        for rnd in range(ws.rounds):
            W.req(ws)
            before = pub(b, "waiting", 0)

            def first(before=before):
                self._arrive()
                ws.blocked = pub(b, "waiting", 0) > before

            try:
                yield from delegate(b.wait(), first)
            except RuntimeError:
                # broken barrier: refused at once (not an arrival) or released with an error
                W.note(ws, "broken")
                if ws.blocked is None:
                    ws.state = FAILED
                    return None
            if ws.blocked is None:
                ws.blocked = False
            self.passes += 1
            W.grant(ws, rnd)
            if self.passes > self.entitled:
                W.flag("over-admit", self.shape(W, ws),
                       f"{ws.name} passed the barrier at {tk(W.now())} as release #{self.passes} although only "
                       f"{self.entitled} are due ({self.arrivals} arrivals, parties={self.parties})")
            W.rel(ws)
            ws.state = DONE
            if rnd + 1 < ws.rounds:
                yield float(ws.hold)
        return None

    def shape(self, W, ws=None):
        return "after-reset-or-abort" if self.secondary else W.tie_shape(ws)

    def sample(self, W):
        n = pub(self.prim, "waiting")
        if n is None:
            return ()
        out = []
        if n > self.parties - 1:
            out.append(("over-admit", f"waiting={n} with parties={self.parties} (the barrier should have broken)"))
        if n > sum(1 for w in W.ws if w.state == WAIT):
            out.append(("conservation", f"waiting={n} but only {sum(1 for w in W.ws if w.state == WAIT)} workers wait"))
        return out

    def at_instant_end(self, W):
        if self.passes < self.entitled:
            return [("grant-late", f"{self.entitled} releases are due ({self.arrivals} arrivals, parties={self.parties}"
                                   f"{', reset/abort called' if self.secondary else ''}) but only {self.passes} "
                                   f"parties resumed")]
        return ()

    def starved(self, W, left):
        return left if self.passes < self.entitled else []

    def starved_shape(self, W, w):
        return self.shape(W, w)

    def instant_shape(self, W):
        return self.shape(W)

    def storm_shape(self, W):
        return self.name, "waiting-for-parties"


class ConditionAd(Adapter):
    """Producer/consumer over a counter guarded by Condition(Mutex).
    kinds: 'c' consumer, 'p1' producer (1 item, notify(1)), 'pa' producer (2 items, notify_all)."""

    name = "Condition"
    cap = 1
    ordered = False

    def build(self, W):
        self.m = Mutex("cm")
        self.prim = Condition("cv", self.m)
        return [self.prim, self.m]

    def limit_text(self):
        return "one thread inside the monitor"

    def script(self, W, ws):
        m, cv = self.m, self.prim
        W.req(ws)
        before = pub(m, "waiters", 0)

        def first():
            ws.blocked = pub(m, "waiters", 0) > before

        yield from delegate(m.acquire(ws.name), first)
        W.grant(ws)
        if ws.kind == "c":
            while W.items == 0:
                W.note(ws, "cwait")
                ws.state = CWAIT
                ws.cw_resumes = 0
                ws.cw_epoch += 1
                W.contended = True
                yield from cv.wait()
                W.grant(ws)  # re-entry into the monitor: exclusion is checked again
            W.items -= 1
            W.consumed += 1
        elif ws.kind == "cf":
            # same consumer through the convenience API wait_for(predicate); the predicate (called by the
            # library with the mutex held) is where the harness sees the worker leave / re-enter the monitor
            def have_item():
                if ws.state == CWAIT:
                    W.grant(ws)
                if W.items > 0:
                    return True
                W.note(ws, "cwait")
                ws.state = CWAIT
                ws.cw_resumes = 0
                ws.cw_epoch += 1
                W.contended = True
                return False

            yield from cv.wait_for(have_item)
            W.items -= 1
            W.consumed += 1
        else:
            k = 1 if ws.kind == "p1" else 2
            W.items += k
            W.produced += k
            if ws.kind == "p1":
                cv.notify(1)
            else:
                cv.notify_all()
        yield float(ws.hold)
        W.rel(ws)
        evs = m.release()
        W.reld(ws)
        return evs

    def sample(self, W):
        locked = pub(self.m, "is_locked")
        out = []
        if locked is not None and not locked and any(w.state == HOLD for w in W.ws):
            out.append(("conservation", "a worker is inside the monitor but the mutex reports is_locked=False"))
        n = pub(self.prim, "waiters")
        if n is not None and n > sum(1 for w in W.ws if w.state == CWAIT):
            out.append(("conservation", f"condition.waiters={n} exceeds the number of workers inside wait()"))
        return out

    def at_instant_end(self, W):
        if any(w.state == HOLD for w in W.ws):
            return ()
        nwait = pub(self.prim, "waiters")
        stuck = [w for w in W.ws if w.state == WAIT and w.blocked]
        if nwait is not None:
            notified = sum(1 for w in W.ws if w.state == CWAIT) - nwait
            if notified > 0:
                return [("grant-late", f"the monitor is free and {notified} notified waiter(s) have not re-entered")]
        if stuck:
            return [("grant-late", f"the monitor is free and {stuck[0].name} is blocked on its mutex")]
        return ()

    def starved(self, W, left):
        out = [w for w in left if w.state == WAIT]
        if W.items > 0:
            out += [w for w in left if w.state == CWAIT]
        return out

    def final(self, W):
        if any(w.state in (WAIT, HOLD) for w in W.ws):
            return ()
        if pub(self.m, "is_locked"):
            return [("conservation", "everybody left the monitor but the mutex is still locked (leak)")]
        return ()

    def storm_shape(self, W):
        if pub(self.prim, "waiters", 0):
            return self.name, "wait-for-notify"
        # nobody is queued on the condition: the spinning process sits in Mutex.acquire
        # (a plain contended acquire, or wait()'s re-acquisition after the notify)
        return "Mutex", "contended-acquire"

    def spin_shape(self, W):
        return "poll-while-waiting"


class PoolAd(Adapter):
    name = "ConnectionPool"

    def build(self, W):
        c = self.cfg
        self.cap = c["max"]
        self.lat = c["latency"]
        self.timeout = c["timeout"]
        self.sink = _Sink("db")
        self.min = c.get("min", 0)
        self.warm = c.get("warm")  # None | 'first' | 'last': warmup() event created before/after the arrivals
        self.prim = ConnectionPool("pool", target=self.sink, min_connections=self.min, max_connections=self.cap,
                                   connection_timeout=float(self.timeout), idle_timeout=float(c.get("idle", 64)),
                                   connection_latency=ConstantLatency(float(self.lat)))
        for w in W.ws:
            w.amt = 1
        return [self.prim, self.sink]

    def limit_text(self):
        return f"max_connections={self.cap}"

    def extra_events(self, W, when):
        return [self.prim.warmup()] if self.warm == when else []

    def sim_kwargs(self):
        # with min_connections > 0 the pool re-arms its idle check for ever; everything the workers
        # do (last arrival 5t + timeout 16t + set-up 2t + holds) is over long before 40t
        return {"end_time": Instant(40 * TICK)} if self.min else {}

    def head_fits(self, W, head):
        if pub(self.prim, "idle_connections", 0) > 0:
            return True  # an idle connection and a queued waiter at the end of an instant
        if self.warm and pub(self.prim, "total_connections", 0) < self.min:
            return False  # the warm-up is still setting connections up: their slots are taken
        return self.admissible(W.occupying() + [head])

    closed_at = None  # log position of a close_all() call

    def script(self, W, ws):
        pool = self.prim
        if ws.kind == "close":
            # teardown API: closes every connection and releases every queued waiter empty-handed.
            # The statement says nothing about the counters afterwards (holders keep handles of closed
            # connections), so only "no parked waiter strands" is judged from here on.
            W.note(ws, "close_all")
            for o in W.ws:
                if o.state == HOLD:
                    o.amt = 0
            self.closed_at = len(W.log)
            pool.close_all()
            ws.state = DONE
            return None
        W.req(ws)
        ws.expiry = ws.t_req + self.timeout * TICK
        before = pub(pool, "pending_requests", 0)

        def first():
            ws.blocked = pub(pool, "pending_requests", 0) > before

        try:
            conn = yield from delegate(pool.acquire(), first)
        except TimeoutError:
            W.timeout(ws)
            return None
        if ws.blocked is None:
            ws.blocked = False
        cid = getattr(conn, "id", None)
        for o in W.ws:
            if o is not ws and o.state == HOLD and o.token == cid and cid is not None:
                W.flag("over-admit", self.admit_shape(W, ws),
                       f"connection id={cid} handed to {ws.name} while {o.name} still holds it")
        W.grant(ws, cid)
        yield float(ws.hold)
        W.rel(ws)
        evs = pool.release(conn)
        W.reld(ws)
        return evs

    def admit_shape(self, W, ws):
        if self.warm:
            return "with-warm-up"
        # some worker requested while another one's connection set-up was in progress
        for a in W.ws:
            if a.blocked is False and a.s_req is not None:
                end = a.s_grant if a.s_grant is not None else len(W.log)
                if any(o is not a and o.s_req is not None and a.s_req < o.s_req < end for o in W.ws):
                    return "arrival-during-setup"
        return W.tie_shape(ws)

    def at_instant_end(self, W):
        if self.closed_at is None:
            return ()
        stuck = [w for w in W.ws if w.state == WAIT and w.blocked and w.s_req < self.closed_at]
        if stuck:
            return [("starved", f"close_all() was called but {stuck[0].name}, queued before it, is still parked")]
        return ()

    def instant_shape(self, W):
        return "after-close_all" if self.closed_at is not None else W.tie_shape()

    def sample(self, W):
        p = self.prim
        if self.closed_at is not None:
            return ()
        act, idle, tot = pub(p, "active_connections"), pub(p, "idle_connections"), pub(p, "total_connections")
        if act is None or idle is None or tot is None:
            return ()
        out = []
        if act > self.cap or tot > self.cap:
            out.append(("over-admit", f"active={act} total={tot} with max_connections={self.cap}"))
        if act + idle != tot and not self._setup_in_flight(W):
            out.append(("conservation", f"active={act} + idle={idle} != total={tot}"))
        nh = sum(1 for w in W.ws if w.state == HOLD)
        nw = sum(1 for w in W.ws if w.state == WAIT)
        if not nh <= act <= nh + nw:
            out.append(("conservation", f"active_connections={act} but {nh} worker(s) hold and {nw} wait"))
        return out

    def _setup_in_flight(self, W):
        return any(w.state == WAIT and w.blocked is False for w in W.ws)

    def final(self, W):
        p = self.prim
        if self.closed_at is not None or any(w.state in (WAIT, HOLD) for w in W.ws):
            return ()
        act, idle, tot = pub(p, "active_connections"), pub(p, "idle_connections"), pub(p, "total_connections")
        if act is None:
            return ()
        if act != 0 or idle != tot:
            return [("conservation", f"all workers released but active={act}, idle={idle}, total={tot} (leak)")]
        return ()

    def late_shape(self, W, head):
        # the pool's own counter says the hand-off already happened, yet acquire() has not returned
        nblocked = sum(1 for w in W.ws if w.state == WAIT and w.blocked)
        pend = pub(self.prim, "pending_requests")
        if pend is not None and pend < nblocked:
            return "handed-off-but-acquire-not-returned"
        if pub(self.prim, "idle_connections", 0) > 0:
            return "idle-connection-while-waiter-queued"
        return W.tie_shape(head)


class _Sink(Entity):
    def handle_event(self, event):
        return None


class _Target(Entity):
    """Protected service behind a Bulkhead: holds each request for its hold time."""

    def __init__(self, name, world):
        super().__init__(name)
        self.world = world

    def handle_event(self, event):
        W = self.world
        ws = W.ws[event.context["metadata"]["tag"]]
        if ws.t_req is None:  # arrival was not observed at the bulkhead (fallback)
            W.req(ws)
            ws.blocked = None
        W.grant(ws)
        yield float(ws.hold)
        W.rel(ws)
        W.reld(ws)
        return None


class BulkheadAd(Adapter):
    name = "Bulkhead"

    def build(self, W):
        c = self.cfg
        self.cap = c["max"]
        self.q = c["queue"]
        self.mwt = c["wait"]
        self.target = _Target("svc", W)
        self.prim = Bulkhead("bh", self.target, max_concurrent=self.cap, max_wait_queue=self.q,
                             max_wait_time=None if self.mwt is None else float(self.mwt))
        self._qd = 0
        self._rej = 0
        for w in W.ws:
            w.amt = 1
        return [self.prim, self.target]

    def limit_text(self):
        return f"max_concurrent={self.cap}"

    def entry(self, W, ws, proc):
        return self.prim

    def meta(self, ws):
        return {"tag": ws.idx}

    def script(self, W, ws):  # never used (requests are events, not processes)
        return None

    def hook(self, W, ev):
        b = self.prim
        if ev.target is b and ev.event_type == "arr":
            ws = W.ws[ev.context["metadata"]["tag"]]
            W.req(ws)
            qd = pub(b, "queue_depth", 0)
            rej = getattr(pub(b, "stats"), "rejected_requests", 0)
            if rej > self._rej:
                W.fail(ws)
            elif qd > self._qd:
                ws.blocked = True
                W.contended = True
                if self.mwt is not None:
                    ws.expiry = ws.t_req + self.mwt * TICK
            else:
                ws.blocked = False
        self._qd = pub(b, "queue_depth", 0)
        self._rej = getattr(pub(b, "stats"), "rejected_requests", 0)

    def sample(self, W):
        b = self.prim
        act, avail, qd = pub(b, "active_count"), pub(b, "available_permits"), pub(b, "queue_depth")
        if act is None:
            return ()
        out = []
        if act > self.cap:
            out.append(("over-admit", f"active_count={act} > max_concurrent={self.cap}"))
        if qd is not None and qd > self.q:
            out.append(("over-admit", f"queue_depth={qd} > max_wait_queue={self.q}"))
        if avail is not None and act <= self.cap and act + avail != self.cap:
            out.append(("conservation", f"active_count={act} + available_permits={avail} != max_concurrent={self.cap}"))
        nh = sum(1 for w in W.ws if w.state == HOLD)
        if act < nh:
            out.append(("conservation", f"active_count={act} but {nh} requests are inside the protected service"))
        return out

    def at_instant_end(self, W):
        act = pub(self.prim, "active_count")
        nh = sum(1 for w in W.ws if w.state == HOLD)
        if act is not None and act != nh:
            return [("conservation", f"active_count={act} but {nh} request(s) are inside the protected service")]
        return ()

    def starved(self, W, left):
        return left

    def final(self, W):
        act = pub(self.prim, "active_count")
        if act:
            return [("conservation", f"no request in service but active_count={act} (leak)")]
        return ()


class ThreadPoolAd(Adapter):
    name = "ThreadPool"
    block_on_time = True

    def build(self, W):
        self.cap = self.cfg["workers"]
        self.W = W
        self.prim = ThreadPool("tp", num_workers=self.cap, processing_time_extractor=self._start)
        for w in W.ws:
            w.amt = 1
        return [self.prim]

    def limit_text(self):
        return f"num_workers={self.cap}"

    def entry(self, W, ws, proc):
        return self.prim

    def meta(self, ws):
        return {"tag": ws.idx, "processing_time": float(ws.hold)}

    def wrap_arrival(self, ev, ws):
        # direct arrivals go through the public convenience method submit()
        return self.prim.submit(ev) if ws.hop == 0 else ev

    def script(self, W, ws):
        return None

    def _start(self, task):
        """Public constructor hook: called by the pool when a worker starts the task."""
        W = self.W
        ws = W.ws[task.context["metadata"]["tag"]]
        if ws.t_req is None:
            W.req(ws)
        if ws.blocked is None:
            ws.blocked = False
        W.grant(ws)
        ws.t_rel = ws.t_grant + ws.hold * TICK
        return float(ws.hold)

    def settle(self, W, now):
        for w in W.ws:
            if w.state == HOLD and w.t_rel is not None and w.t_rel <= now:
                w.state = DONE

    def hook(self, W, ev):
        if ev.target is self.prim and ev.event_type == "arr":
            ws = W.ws[ev.context["metadata"]["tag"]]
            if ws.t_req is None:
                W.req(ws)

    def sample(self, W):
        p = self.prim
        act, idle = pub(p, "active_workers"), pub(p, "idle_workers")
        if act is None:
            return ()
        out = []
        if act > self.cap:
            out.append(("over-admit", f"active_workers={act} > num_workers={self.cap}"))
        if idle is not None and act + idle != self.cap:
            out.append(("conservation", f"active_workers={act} + idle_workers={idle} != num_workers={self.cap}"))
        return out

    def at_instant_end(self, W):
        act = pub(self.prim, "active_workers")
        nh = sum(1 for w in W.ws if w.state == HOLD)
        if act is not None and act != nh:
            return [("conservation", f"active_workers={act} but {nh} task(s) are being processed")]
        return ()

    def final(self, W):
        act = pub(self.prim, "active_workers")
        if act:
            return [("conservation", f"no task in service but active_workers={act} (leak)")]
        return ()

    def _dropped(self):
        return getattr(pub(self.prim, "stats"), "tasks_rejected", 0) > 0

    def late_shape(self, W, head):
        if pub(self.prim, "queued_tasks", 0) > 0 and pub(self.prim, "idle_workers", 0) > 0:
            return "queued-while-worker-idle"
        if pub(self.prim, "queued_tasks", 0) == 0 and self._dropped():
            return "after-task-dropped"  # the pool itself reports a dequeued task it refused to run
        return W.tie_shape(head)

    def fifo_shape(self, W, ws, a):
        if a.s_grant is None and self._dropped():
            return "after-task-dropped"
        return super().fifo_shape(W, ws, a)

    def starved_shape(self, W, w):
        if pub(self.prim, "queued_tasks", 0) == 0:
            return "dequeued-but-never-started"
        return "left-in-queue"


class _StartHook(ConstantLatency):
    """Service-time distribution of the Server: constant, and the (public, constructor-injected)
    sampling call is the moment a request starts service."""

    def __init__(self, seconds, on_start):
        super().__init__(seconds)
        self.on_start = on_start

    def get_latency(self, current_time):
        self.on_start()
        return super().get_latency(current_time)


class ServerAd(Adapter):
    """Server(concurrency=<int>) = FixedConcurrency limiter behind a queue; requests declare a
    metadata weight (spec field 'amount'), which a fixed limiter must ignore consistently: every
    request in service takes exactly one slot.  Requests are anonymous to the harness (same service
    time for all): a start is booked on the earliest arrival not yet started, so the fifo clause is
    void here; occupancy, conservation, grant-late and starvation are judged."""

    name = "Server"
    block_on_time = True

    OPS = ("up", "down", "set")  # kinds that change a DynamicConcurrency limit at run time

    @property
    def cap(self):
        return pub(self._model(), "limit", self.cfg["limit"])

    def build(self, W):
        self.svc = self.cfg["service"]
        self.dynamic = bool(self.cfg.get("dynamic"))
        self.W = W
        conc = DynamicConcurrency(self.cfg["limit"], min_limit=1, max_limit=3) if self.dynamic else self.cfg["limit"]
        self.prim = Server("srv", concurrency=conc, service_time=_StartHook(float(self.svc), self._start))
        self.cap_hist = [(0, self.cfg["limit"])]
        for w in W.ws:
            if w.kind in self.OPS:
                w.prio = w.amt
                w.amt = 0
            else:
                w.prio, w.amt, w.hold = w.amt, 1, self.svc
        return [self.prim]

    def limit_text(self):
        return f"concurrency limit {self.cap}"

    def entry(self, W, ws, proc):
        return proc if ws.kind in self.OPS else self.prim

    def meta(self, ws):
        return {"tag": ws.idx, "weight": ws.prio}

    def admissible(self, occ):
        cap = self.cap
        ws = self.granting
        if ws is not None:
            # admission happens when the queue releases the request, a few deliveries before service
            # starts: judge it against the largest limit in force since the request arrived
            before = [c for (pos, c) in self.cap_hist if pos < ws.s_req]
            cap = max([c for (pos, c) in self.cap_hist if pos >= ws.s_req] + before[-1:])
        return sum(w.amt for w in occ) <= cap

    def script(self, W, ws):
        """Limit change through every public method of the dynamic limiter (requests are events)."""
        m = self._model()
        W.note(ws, ws.kind, ws.prio)
        if ws.kind == "up":
            m.scale_up(1)
        elif ws.kind == "down":
            m.scale_down(1)
        else:
            m.set_limit(ws.prio)
        self.cap_hist.append((len(W.log), self.cap))
        ws.state = DONE
        return None

    def late_shape(self, W, head):
        return "after-limit-raise" if any(k in ("up", "set") for (_t, k, _i, _x) in W.log) else W.tie_shape(head)

    def _start(self):
        W = self.W
        cands = [w for w in W.ws if w.state == WAIT]
        if not cands:
            W.flag("granted-twice", W.tie_shape(), f"a request started service at {tk(W.now())} but every arrival "
                                                   f"has already been started")
            return
        ws = min(cands, key=lambda w: w.s_req)
        if ws.blocked is None:
            ws.blocked = False
        W.grant(ws)
        ws.t_rel = ws.t_grant + self.svc * TICK

    def settle(self, W, now):
        for w in W.ws:
            if w.state == HOLD and w.t_rel is not None and w.t_rel <= now:
                w.state = DONE

    def hook(self, W, ev):
        if ev.target is self.prim and ev.event_type == "arr":
            ws = W.ws[ev.context["metadata"]["tag"]]
            if ws.t_req is None:
                W.req(ws)

    def _model(self):
        return pub(self.prim, "concurrency_model")

    def sample(self, W):
        m = self._model()
        act, avail, lim = pub(m, "active"), pub(m, "available"), pub(m, "limit")
        if act is None:
            return ()
        out = []
        if lim is not None and act > lim and not self.dynamic:  # a lowered limit never evicts (documented)
            out.append(("over-admit", f"limiter active={act} > limit={lim}"))
        if avail is not None and lim is not None and act <= lim and act + avail != lim:
            out.append(("conservation", f"limiter active={act} + available={avail} != limit={lim}"))
        return out

    def at_instant_end(self, W):
        act = pub(self._model(), "active")
        nh = sum(1 for w in W.ws if w.state == HOLD)
        if act is not None and act != nh:
            return [("conservation", f"limiter active={act} but {nh} request(s) are in service "
                                     f"(weights {[w.prio for w in W.ws if w.state == HOLD]})")]
        return ()

    def final(self, W):
        act = pub(self._model(), "active")
        if act:
            return [("conservation", f"no request in service but limiter active={act} (leak)")]
        return ()


class PreemptAd(Adapter):
    name = "PreemptibleResource"

    def build(self, W):
        self.cap = self.cfg["cap"]
        self.prim = PreemptibleResource("pre", self.cap)
        return [self.prim]

    def order_key(self, ws):
        return (ws.prio, ws.s_req)

    def script(self, W, ws):
        res = self.prim
        W.req(ws)

        def on_preempt():
            ws.preempted = True
            W.contended = True
            if ws.state == HOLD:
                ws.state = DONE  # no longer an outstanding holder (documented semantics)
            W.note(ws, "preempted")

        fut = res.acquire(ws.amt, priority=float(ws.prio), preempt=ws.preempt, on_preempt=on_preempt)
        ws.blocked = not fut.is_resolved
        g = yield fut
        if getattr(g, "preempted", False):
            # preempted before it could even observe the grant: never an outstanding holder
            W.note(ws, "grant-preempted")
            ws.state = DONE
            ws.grants += 1
        else:
            W.grant(ws)
        yield float(ws.hold)
        if not ws.preempted:
            W.rel(ws)
        g.release()
        ws.state = DONE
        return None

    def sample(self, W):
        # a waiter that was granted internally may also have been preempted again before it
        # resumed; it shows up as 'preempted' while still WAIT: count it as not holding
        avail = pub(self.prim, "available")
        if avail is None:
            return ()
        out = []
        if avail > self.cap:
            out.append(("above-capacity", f"available={avail} > capacity={self.cap}"))
        held = nb = 0
        bl = []
        for w in W.ws:
            if w.state == HOLD:
                held += w.amt
            elif w.state == WAIT and not w.preempted:
                if w.blocked is False:
                    nb += w.amt
                else:
                    bl.append(w.amt)
        used = self.cap - avail
        if not held + nb <= used <= held + nb + sum(bl):
            out.append(("conservation", f"capacity-available={used} but the workers account for "
                                        f"{(held + nb, held + nb + sum(bl))}"))
        return out

    def final(self, W):
        return self.sem_final(W, self.cap, pub(self.prim, "available"))

    def late_shape(self, W, head):
        if any(w.preempted for w in W.ws):
            return "after-preemption"
        return W.tie_shape(head)


ADAPTERS = {a.name: a for a in (ResourceAd, SemaphoreAd, MutexAd, RWLockAd, BarrierAd, ConditionAd,
                                PoolAd, BulkheadAd, ThreadPoolAd, PreemptAd, ServerAd)}


# ---------------------------------------------------------------------------
# one execution
# ---------------------------------------------------------------------------
def run_case(prim, cfg, specs):
    ad = ADAPTERS[prim](cfg)
    W = World(ad, specs)
    ents = ad.build(W)
    procs, extra = [], []
    entries = []
    for ws in W.ws:
        p = Proc(ws.name, W, ws)
        procs.append(p)
        W.by_ent[id(p)] = ws
        tgt = ad.entry(W, ws, p)
        for h in range(ws.hop):
            f = Fwd(f"hop{ws.idx}.{h}", tgt)
            extra.append(f)
            tgt = f
        entries.append(tgt)
    sim = Simulation(entities=ents + procs + extra, **ad.sim_kwargs())
    W.clock_ent = procs[0]
    for ev in ad.extra_events(W, "first"):
        sim.schedule(ev)
    for ws, tgt in zip(W.ws, entries):
        md = {"tag": ws.idx}
        md.update(ad.meta(ws))
        sim.schedule(ad.wrap_arrival(Event(time=Instant(ws.off * TICK), event_type="arr", target=tgt,
                                           context={"metadata": md}), ws))
    for ev in ad.extra_events(W, "last"):
        sim.schedule(ev)
    sim.control.on_time_advance(W.on_time)
    try:
        res = run_guarded(sim, max_events=MAX_EVENTS, storm=STORM, on_event=W.on_event)
    except Exception as e:  # an exception escaping the library in a legitimate interleaving
        W.outcome = "crash"
        W.resolve_fifo()
        W.flag("crash", type(e).__name__, f"{type(e).__name__}: {e} (escaped the simulation at {tk(W.cur_t)})")
        return W
    W.finish(res)
    return W


def fingerprints(W):
    return [(f"{comp}/{clause}/{shape}", desc) for (comp, clause, shape), desc in W.viol.items()]


# ---------------------------------------------------------------------------
# enumeration
# ---------------------------------------------------------------------------
def worker_alphabet(fields):
    """fields: list of value lists in spec order (off, kind, amt, hold, hop[, prio, preempt]),
    or {"union": [fields, ...]} = concatenation of several such products."""
    if isinstance(fields, dict):
        return [x for f in fields["union"] for x in worker_alphabet(f)]
    return [tuple(x) for x in itertools.product(*fields)]


def alphabets(fields, n):
    """Per-position alphabets: ``fields`` is one field list (same alphabet for every worker) or
    {"per_worker": [fields0, ...]} (worker i draws from fields_i)."""
    if isinstance(fields, dict) and "per_worker" in fields:
        return [worker_alphabet(f) for f in fields["per_worker"]]
    a = worker_alphabet(fields)
    return [a] * n


def _work(job):
    prim, cfg, n, first_specs, fields = job
    alphas = alphabets(fields, n)
    st = {"exec": 0, "trans": 0, "nontriv": 0, "outcomes": set(), "viol": {}, "samples": [],
          "max_same": 0, "kinds": {}, "horizon": 0}
    for first in first_specs:
        for rest in itertools.product(*alphas[1:]):
            specs = (first,) + rest
            W = run_case(prim, cfg, specs)
            st["exec"] += 1
            st["trans"] += W.deliveries
            dg = digest(W.log)
            st["outcomes"].add(dg)
            if st["exec"] % 211 == 1:
                # determinism self-check: the same schedule must give the same observation and verdict
                W2 = run_case(prim, cfg, specs)
                if digest(W2.log) != dg or sorted(W2.viol) != sorted(W.viol):
                    raise RuntimeError(f"C09 harness error: nondeterministic execution for {prim} {cfg} {specs}")
                st["recheck"] = st.get("recheck", 0) + 1
            st["kinds"][W.outcome] = st["kinds"].get(W.outcome, 0) + 1
            if W.outcome == "horizon":
                st["horizon"] += 1
            if W.max_same > st["max_same"] and W.outcome != "storm":
                st["max_same"] = W.max_same
            if W.contended:
                st["nontriv"] += 1
                if len(st["samples"]) < 1:
                    st["samples"].append({"prim": prim, "cfg": cfg, "workers": specs, "log": compact(W.log)})
            for fp, desc in fingerprints(W):
                if fp not in st["viol"]:
                    st["viol"][fp] = (desc, {"driver": prim, "prim": prim, "cfg": cfg, "workers": specs,
                                             "log": compact(W.log)})
    return st


def compact(log):
    return [(t // TICK if t % TICK == 0 else t / TICK, k, f"w{i}", x) for (t, k, i, x) in log]


def run_driver(run, name, prim, cfgs, plans, seed, spec_doc):
    """plans: list of (n, fields).  Every cfg x plan is enumerated completely."""
    t0 = time.time()
    d = run.driver(name, {"primitive": prim, "configs": cfgs,
                          "plans(workers -> per-worker alphabet)": [
                              {"workers": n, "fields(off,kind,amount,hold,hop,prio,preempt)":
                                  ([f(c) for c in cfgs] if callable(f) else f)} for n, f in plans],
                          "tick": "1 s", "storm_limit": STORM, "max_events": MAX_EVENTS, "spec": spec_doc})
    jobs = []
    for n, fields_fn in plans:
        for cfg in cfgs:
            fields = fields_fn(cfg) if callable(fields_fn) else fields_fn
            alphas = alphabets(fields, n)
            alpha = alphas[0]
            size = 1
            for a_ in alphas:
                size *= len(a_)
            nch = 1 if n == 1 or size < 400 else min(len(alpha), 48)
            chunks = [alpha[i::nch] for i in range(nch)]
            group = [(prim, cfg, n, ch, fields) for ch in chunks if ch]
            jobs.append((n, rotate(group, seed)))
    # simplest first: by worker count; inside one count the order of independent sub-spaces rotates
    jobs.sort(key=lambda x: x[0])
    flat = [j for _n, g in jobs for j in g]
    outcomes = set()
    kinds = {}
    max_same = 0
    for st in pmap(_work, flat):
        d.executions += st["exec"]
        d.transitions += st["trans"]
        d.nontrivial += st["nontriv"]
        outcomes |= st["outcomes"]
        for k, v in st["kinds"].items():
            kinds[k] = kinds.get(k, 0) + v
        max_same = max(max_same, st["max_same"])
        d.extra["determinism_rechecks"] = d.extra.get("determinism_rechecks", 0) + st.get("recheck", 0)
        if st["horizon"]:
            d.exhaustive = False
            if "max_events horizon reached" not in d.caps:
                d.caps.append("max_events horizon reached")
        for fp, (desc, rep) in st["viol"].items():
            rep = dict(rep)
            rep["driver"] = name
            if fp not in run.violations:
                # same schedule, same verdict: re-execute the witness before reporting it
                again = [f for f, _ in fingerprints(run_case(rep["prim"], rep["cfg"], rep["workers"]))]
                if fp not in again:
                    raise RuntimeError(f"C09 harness error: {fp} did not reproduce from its replay data {rep}")
            run.violation(fp, desc, rep)
        if len(d.samples) < 3:
            d.samples.extend(st["samples"])
    d.states = d.outcomes = len(outcomes)
    d.extra["run_outcomes"] = kinds
    d.extra["max_deliveries_at_one_instant_in_non_storm_runs"] = max_same
    d.wall_s = time.time() - t0


# ---------------------------------------------------------------------------
# concurrency limiters: all op sequences on the pure objects (they never block)
# ---------------------------------------------------------------------------
def _lim_make(kind, limit):
    if kind == "Fixed":
        return FixedConcurrency(limit)
    if kind == "Dynamic":
        return DynamicConcurrency(limit, min_limit=1, max_limit=3)
    return WeightedConcurrency(limit)


def _lim_ops(kind, weights=(1, 2)):
    """a=acquire(w) r=release(w) of a request granted with weight w, x=surplus release, up/down=scale.
    Fixed/Dynamic must ignore the weight consistently (one slot per request in both directions)."""
    ops = [("a", w) for w in weights] + [("r", w) for w in weights] + [("x", 1)]
    if kind == "Dynamic":
        ops += [("up", 1), ("down", 1), ("set", 1), ("set", 3)]
    return ops


def limiter_run(kind, limit, seq):
    """Apply ``seq`` to a fresh limiter.  Ghost model: multiset of the weights of granted requests;
    a granted request occupies ``w`` units on the weighted model and ONE slot on the others.
    'r' releases a granted request with the weight it was acquired with (skipped when no such request
    is held: not an interleaving of legitimate calls), 'x' is a surplus release (legitimate sequences
    never contain it; afterwards only the 'never above capacity' bounds are checked)."""
    lim = _lim_make(kind, limit)
    cost = (lambda w: w) if kind == "Weighted" else (lambda w: 1)
    announced = []
    if kind == "Dynamic":
        lim.on_limit_increase(lambda: announced.append(1))
    held = []
    tainted = False
    cur = limit
    viol = []
    trace = []
    for i, (op, w) in enumerate(seq):
        old_lm = lim.limit
        if op == "a":
            hc = lim.has_capacity(w)
            ok = lim.acquire(w)
            trace.append((op, w, ok))
            if bool(hc) != bool(ok):
                viol.append(("grant-late" if hc is False else "starved", "has-capacity-disagrees",
                             f"step {i}: has_capacity({w})={hc} but acquire({w})={ok}", i))
            if ok:
                held.append(w)
                used = sum(cost(x) for x in held)
                if not tainted and used > cur:
                    viol.append(("over-admit", "legit-sequence", f"step {i}: acquire({w}) admitted with {used - cost(w)} already held, limit {cur}", i))
            elif not tainted and sum(cost(x) for x in held) + cost(w) <= cur:
                viol.append(("grant-late", "legit-sequence", f"step {i}: acquire({w}) refused with {sum(cost(x) for x in held)} held, limit {cur}", i))
        elif op == "r":
            if w not in held:
                trace.append((op, w, "skipped"))
                continue
            held.remove(w)
            lim.release(w)
            trace.append((op, w, None))
        elif op == "x":
            lim.release(w)
            tainted = True
            trace.append((op, w, None))
        elif op == "up":
            lim.scale_up(1)
            cur = min(3, cur + 1)
            trace.append((op, w, lim.limit))
        elif op == "down":
            lim.scale_down(1)
            cur = max(1, cur - 1)
            trace.append((op, w, lim.limit))
        elif op == "set":
            lim.set_limit(w)
            cur = max(1, min(3, w))
            trace.append((op, w, lim.limit))
        if op in ("up", "down", "set"):
            # whoever feeds the limiter is told that waiting work may start iff the limit really grew
            if lim.limit > old_lm and not announced:
                viol.append(("grant-late", "limit-increase-not-announced",
                             f"step {i} {op}({w}): limit {old_lm} -> {lim.limit} but the on_limit_increase "
                             f"listener was not called (queued work is not started)", i))
            announced.clear()
        act, avail, lm = lim.active, lim.available, lim.limit
        used = sum(cost(x) for x in held)
        shape = "surplus-release" if tainted else "legit-sequence"
        if avail > lm:
            viol.append(("above-capacity", shape, f"step {i} {op}: available={avail} > limit={lm}", i))
        if act < 0:
            viol.append(("above-capacity", shape, f"step {i} {op}: active={act} < 0", i))
        if not tainted:
            if act != used:
                viol.append(("conservation", shape, f"step {i} {op}({w}): active={act} but the granted requests "
                                                    f"(weights {held}) occupy {used}", i))
            if act <= lm and act + avail != lm:
                viol.append(("conservation", shape, f"step {i} {op}: active={act} + available={avail} != limit={lm}", i))
            if lm != cur:
                viol.append(("conservation", shape, f"step {i} {op}: limit={lm}, expected {cur}", i))
    return viol, trace, (tuple(held), lim.active, lim.available, lim.limit)


def _lim_work(job):
    kind, limit, depth, firsts, weights = job
    ops = _lim_ops(kind, weights)
    st = {"exec": 0, "trans": 0, "nontriv": 0, "outcomes": set(), "viol": {}, "samples": []}
    for first in firsts:
        for rest in itertools.product(ops, repeat=depth - 1):
            seq = (first,) + rest
            viol, trace, final = limiter_run(kind, limit, seq)
            st["exec"] += 1
            st["trans"] += len(seq)
            st["outcomes"].add(digest((trace, final)))
            if any(t[0] == "a" and t[2] is False for t in trace):
                st["nontriv"] += 1
                if not st["samples"]:
                    st["samples"].append({"limiter": kind, "limit": limit, "ops": seq, "trace": trace})
            for clause, shape, desc, step in viol:
                fp = f"{kind}Concurrency/{clause}/{shape}"
                if fp not in st["viol"] or len(st["viol"][fp][1]["ops"]) > step + 1:
                    st["viol"][fp] = (desc, {"driver": "limiters", "limiter": kind, "limit": limit,
                                             "ops": seq[:step + 1]})
    return st


def run_limiters(run, tier, seed):
    t0 = time.time()
    # (weights, sequence length) per model; sequences of that length contain every shorter one as a prefix
    if tier == "quick":
        plan = {"Fixed": ((1, 2), 7), "Dynamic": ((1, 2), 5), "Weighted": ((1, 2), 7)}
    else:
        plan = {"Fixed": ((1, 2, 3), 7), "Dynamic": ((1, 2), 6), "Weighted": ((1, 2, 3), 7)}
    d = run.driver("limiters", {"limiters": ["FixedConcurrency", "DynamicConcurrency", "WeightedConcurrency"],
                                "limits": [1, 2, 3],
                                "plan(weights, op_sequence_length)": plan,
                                "ops": {k: _lim_ops(k, plan[k][0]) for k in plan},
                                "note": "a=acquire(w) r=release(w) of a request granted with weight w, x=surplus "
                                        "release, up/down=scale; has_capacity(w) is compared with acquire(w)"})
    jobs = []
    for kind, (weights, depth) in plan.items():
        for limit in (1, 2, 3):
            for f in _lim_ops(kind, weights):
                jobs.append((kind, limit, depth, [f], weights))
    outcomes = set()
    for st in pmap(_lim_work, rotate(jobs, seed)):
        d.executions += st["exec"]
        d.transitions += st["trans"]
        d.nontrivial += st["nontriv"]
        outcomes |= st["outcomes"]
        for fp, (desc, rep) in st["viol"].items():
            run.violation(fp, desc, rep)
        if len(d.samples) < 2:
            d.samples.extend(st["samples"])
    d.states = d.outcomes = len(outcomes)
    d.wall_s = time.time() - t0


# ---------------------------------------------------------------------------
# driver table
# ---------------------------------------------------------------------------
OFFS = [0, 1, 2]
HOLDS = [0, 1, 2]


def amounts(cap):
    return sorted({1, min(2, cap), cap})


def drivers(tier):
    q = tier == "quick"
    D = []

    # ---- Resource / Semaphore -------------------------------------------------
    caps = [{"cap": 1}, {"cap": 2}, {"cap": 3}]

    def sem_full(cfg):
        return [OFFS, ["acq", "try"], amounts(cfg["cap"]), HOLDS, [0, 1]]

    def sem_acq(cfg):
        return [OFFS, ["acq"], amounts(cfg["cap"]), HOLDS, [0, 1]]

    def sem_acq_nohop(cfg):
        return [OFFS, ["acq"], amounts(cfg["cap"]), HOLDS, [0]]

    def sem_mix_nohop(cfg):
        return [OFFS, ["acq", "try"], amounts(cfg["cap"]), [1, 2], [0]]

    def sem_sharp4(cfg):
        # two early holders + two later acquirers: the smallest shape in which a PARTIAL release
        # meets a queue whose head does not fit (strict arrival order among blocked acquirers)
        a = amounts(cfg["cap"])
        early = [[0], ["acq"], a, [1, 2], [0]]
        late = [[0, 1], ["acq"], a, [0, 1], [0]]
        return {"per_worker": [early, early, late, late]}

    for nm, prim in (("resource", "Resource"), ("semaphore", "Semaphore")):
        if q:
            plans = [(1, sem_full), (2, sem_full), (3, sem_acq_nohop), (3, sem_mix_nohop), (4, sem_sharp4)]
        else:
            plans = [(1, sem_full), (2, sem_full), (3, sem_full), (4, sem_acq_nohop)]
        D.append((nm, prim, caps, plans))

    # ---- Semaphore: release() by a process that holds nothing, also while acquirers are queued ----
    def sem_over(cfg):
        return {"union": [[OFFS, ["acq"], amounts(cfg["cap"]), [1, 2], [0]],
                          [[0, 1, 2, 3], ["over"], [1, 2, 3], [0], [0]]]}

    plans = [(2, sem_over), (3, sem_over)] + ([] if q else [(4, sem_over)])
    D.append(("semaphore_over_release", "Semaphore", [{"cap": 2}, {"cap": 3}], plans))

    # ---- Resource.set_capacity interleaved with acquire/release -----------------
    def cap_mix(hops):
        def f(cfg):
            acq = [OFFS, ["acq"], amounts(cfg["cap"]), HOLDS, [0]]
            ops = [OFFS, ["cap"], [1, 2, 3], [0], hops]  # shrink below/above held, grow, back to original
            return {"union": [acq, ops]}
        return f

    def cap_sharp4(cfg):  # holder, two capacity changes, late acquirer (over-admission after shrink+grow)
        a = amounts(cfg["cap"])
        return {"per_worker": [[[0], ["acq"], a, [2], [0]],
                               [[0, 1], ["cap"], [1, 2, 3], [0], [0, 1]],
                               [[1, 2], ["cap"], [1, 2, 3], [0], [0, 1]],
                               [[1, 2], ["acq"], a, [0, 1], [0, 1]]]}

    capcfg = [{"cap": 2}, {"cap": 3}]
    if q:
        plans = [(2, cap_mix([0, 1])), (3, cap_mix([0])), (4, cap_sharp4)]
    else:
        plans = [(2, cap_mix([0, 1])), (3, cap_mix([0, 1])), (4, cap_mix([0]))]
    D.append(("resource_setcap", "Resource", capcfg, plans))

    # ---- Mutex -----------------------------------------------------------------
    mfull = [OFFS, ["acq", "try"], [1], HOLDS, [0, 1]]
    macq = [OFFS, ["acq"], [1], HOLDS, [0, 1]]
    if q:
        plans = [(1, mfull), (2, mfull), (3, macq)]
    else:
        plans = [(1, mfull), (2, mfull), (3, mfull), (4, [OFFS, ["acq", "try"], [1], HOLDS, [0]])]
    D.append(("mutex", "Mutex", [{}], plans))

    # ---- RWLock ----------------------------------------------------------------
    rcfg = [{"max_readers": None}, {"max_readers": 1}, {"max_readers": 2}]
    rfull = [OFFS, ["r", "w", "tr", "tw"], [1], HOLDS, [0, 1]]
    rblk = [OFFS, ["r", "w"], [1], HOLDS, [0, 1]]
    rblk0 = [OFFS, ["r", "w"], [1], HOLDS, [0]]
    if q:
        plans = [(1, rfull), (2, rfull), (3, rblk0)]
    else:
        plans = [(1, rfull), (2, rfull), (3, rfull), (4, rblk0)]
    D.append(("rwlock", "RWLock", rcfg, plans))

    # ---- Barrier (amount = rounds) ----------------------------------------------
    bcfg = [{"parties": 1}, {"parties": 2}, {"parties": 3}]
    bf = [OFFS, ["wait"], [1, 2], [0, 1], [0, 1]]
    plans = [(1, bf), (2, bf), (3, bf)] + ([] if q else [(4, [OFFS, ["wait"], [1, 2], [0, 1], [0]])])
    D.append(("barrier", "Barrier", bcfg, plans))

    # ---- Barrier.reset() / abort() called by another process while parties are parked -----------
    bops = {"union": [[OFFS, ["wait"], [1, 2], [1], [0]],
                      [OFFS, ["reset", "abort"], [1], [0], [0, 1]]]}
    plans = [(2, bops), (3, bops)] + ([] if q else [(4, bops)])
    D.append(("barrier_reset", "Barrier", [{"parties": 2}, {"parties": 3}], plans))

    # ---- Condition ---------------------------------------------------------------
    cf = [OFFS, ["c", "p1", "pa"], [1], [0, 1], [0, 1]]
    plans = [(1, cf), (2, cf), (3, cf)] + ([] if q else [(4, [OFFS, ["c", "p1", "pa"], [1], [0, 1], [0]])])
    D.append(("condition", "Condition", [{}], plans))

    # ---- Condition.wait_for(predicate) consumers --------------------------------------------------
    cff = [OFFS, ["cf", "p1", "pa"], [1], [0, 1], [0]]
    plans = [(2, cff), (3, cff)] + ([] if q else [(4, [OFFS, ["cf", "c", "p1", "pa"], [1], [0, 1], [0]])])
    D.append(("condition_wait_for", "Condition", [{}], plans))

    # ---- ConnectionPool ------------------------------------------------------------
    pcfg = [{"max": m, "latency": lat, "timeout": to, "idle": idle}
            for m in (1, 2) for lat in (0, 2) for to in (1, 16) for idle in ((64,) if q else (64, 1))]
    pf = [OFFS, ["acq"], [1], HOLDS, [0, 1]]
    pf0 = [OFFS, ["acq"], [1], HOLDS, [0]]
    plans = [(1, pf), (2, pf), (3, pf0)] if q else [(1, pf), (2, pf), (3, pf), (4, pf0)]
    D.append(("connpool", "ConnectionPool", pcfg, plans))

    # ---- ConnectionPool warm-up: warmup() at t=0, slow set-up, clients before/during/after it ---
    wcfg = [{"max": m, "min": mn, "latency": 2, "timeout": to, "idle": 64, "warm": wm}
            for m in (1, 2) for mn in (1, 2) if mn <= m for to in ((16,) if q else (1, 16))
            for wm in ("first", "last")]
    wf = [[0, 1, 2, 3, 4, 5], ["acq"], [1], [1, 2], [0]]
    wf2 = [[0, 1, 2, 3, 4, 5], ["acq"], [1], HOLDS, [0, 1]]
    plans = [(1, wf2), (2, wf2), (3, wf)] if q else [(1, wf2), (2, wf2), (3, wf2)]
    D.append(("connpool_warmup", "ConnectionPool", wcfg, plans))

    # ---- ConnectionPool.close_all() while clients hold / wait ----------------------------------
    ccfg = [{"max": m, "latency": lat, "timeout": 16, "idle": 64} for m in (1, 2) for lat in (0, 2)]
    cops = {"union": [[OFFS, ["acq"], [1], [1, 2], [0]], [[1, 2, 3], ["close"], [1], [0], [0]]]}
    plans = [(2, cops), (3, cops)] + ([] if q else [(4, cops)])
    D.append(("connpool_close", "ConnectionPool", ccfg, plans))

    # ---- Bulkhead -------------------------------------------------------------------
    bhcfg = [{"max": m, "queue": qq, "wait": wt} for m in (1, 2) for qq in (0, 1, 2) for wt in (None, 1)]
    bhf = [OFFS, ["req"], [1], HOLDS, [0, 1]]
    bhf0 = [OFFS, ["req"], [1], HOLDS, [0]]
    plans = [(1, bhf), (2, bhf), (3, bhf0)] if q else [(1, bhf), (2, bhf), (3, bhf), (4, bhf0)]
    D.append(("bulkhead", "Bulkhead", bhcfg, plans))

    # ---- ThreadPool (FixedConcurrency inside) -------------------------------------------
    tcfg = [{"workers": 1}, {"workers": 2}]
    tf = [OFFS, ["task"], [1], HOLDS, [0, 1]]
    tf0 = [OFFS, ["task"], [1], HOLDS, [0]]
    plans = [(1, tf), (2, tf), (3, tf)] if q else [(1, tf), (2, tf), (3, tf), (4, tf)]
    D.append(("threadpool", "ThreadPool", tcfg, plans))

    # ---- Server on a FixedConcurrency limiter, requests declaring weights (amount = weight) ------
    scfg = [{"limit": lm, "service": sv} for lm in (1, 2) for sv in (1, 2)]
    sf = [OFFS, ["req"], [1, 2, 3], [0], [0, 1]]
    sf0 = [[0, 1, 2, 3], ["req"], [1, 2], [0], [0]]
    sf3 = [OFFS, ["req"], [1, 2, 3], [0], [0]]
    plans = [(1, sf), (2, sf), (3, sf3), (4, sf0)] if q else [(1, sf), (2, sf), (3, sf), (4, sf)]
    D.append(("server_fixed", "Server", scfg, plans))

    # ---- Server on a DynamicConcurrency limiter: the limit changes at run time with a backlog ------
    # service 2 ticks, limit changes at 1/2/3: raises fall strictly between completions as well as on them
    dcfg = [{"limit": lm, "service": 2, "dynamic": True} for lm in (1, 2)]
    dreq = [OFFS, ["req"], [1], [0], [0]]
    dops = {"union": [[[1, 2, 3], ["up", "down"], [1], [0], [0]], [[1, 2, 3], ["set"], [1, 2, 3], [0], [0]]]}
    dmix = {"union": [dreq] + dops["union"]}

    def d_sharp(k_req, k_ops):  # a backlog of k_req requests arriving at 0/1, then k_ops limit changes
        early = [[0, 1], ["req"], [1], [0], [0]]
        return {"per_worker": [early] * k_req + [dops] * k_ops}

    if q:
        plans = [(2, dmix), (3, dmix), (4, d_sharp(3, 1)), (5, d_sharp(3, 2))]
    else:
        plans = [(2, dmix), (3, dmix), (4, dmix), (5, d_sharp(3, 2)), (6, d_sharp(4, 2))]
    D.append(("server_dynamic", "Server", dcfg, plans))

    # ---- PreemptibleResource ----------------------------------------------------------------
    prcfg = [{"cap": 1}, {"cap": 2}]

    def pr_small(cfg):
        return [OFFS, ["acq"], amounts(cfg["cap"]), [1, 2], [0], [0, 1], [0, 1]]

    def pr_full(cfg):
        return [OFFS, ["acq"], amounts(cfg["cap"]), HOLDS, [0], [0, 1, 2], [0, 1]]

    def pr_sharp4(cfg):  # four overlapping holders/waiters, three priority levels
        def f(offs):
            return [offs, ["acq"], amounts(cfg["cap"]), [2], [0], [0, 1, 2], [0, 1]]
        if q:  # two workers arrive at 0, two at 1 (every other parameter free)
            return {"per_worker": [f([0]), f([0]), f([1]), f([1])]}
        return f([0, 1])

    if q:
        plans = [(1, pr_small), (2, pr_full), (3, pr_small), (4, pr_sharp4)]
    else:
        plans = [(1, pr_full), (2, pr_full), (3, pr_full), (4, pr_sharp4)]
    D.append(("preemptible", "PreemptibleResource", prcfg, plans))

    # equal-priority queue that partially drains before new arrivals (tie-break by arrival, capacity 1)
    def pr_drain6(cfg):
        def f(offs, holds, hops):
            return [offs, ["acq"], [1], holds, hops, [0], [0]]
        early = f([0, 1, 2], [1, 2], [0])
        return {"per_worker": [f([0], [1], [0]), early, early, early,
                               f([1, 2, 3, 4], [0, 1], [0, 1]),
                               f([2, 3, 4] if q else [1, 2, 3, 4, 5], [1], [0] if q else [0, 1])]}

    D.append(("preemptible_drain", "PreemptibleResource", [{"cap": 1}], [(6, pr_drain6)]))
    return D


# Public mutating API of the primitives named by C09 (swept on /repo HEAD with vars(cls)) and the
# driver in which each method is an operation of the enumerated alphabet.
API_COVERAGE = {
    "Resource": {"acquire": "resource", "try_acquire": "resource", "set_capacity": "resource_setcap",
                 "Grant.release": "resource"},
    "Mutex": {"acquire": "mutex", "try_acquire": "mutex", "release": "mutex"},
    "Semaphore": {"acquire": "semaphore", "try_acquire": "semaphore",
                  "release": "semaphore, semaphore_over_release (release by a non-holder)"},
    "RWLock": {"acquire_read": "rwlock", "acquire_write": "rwlock", "try_acquire_read": "rwlock",
               "try_acquire_write": "rwlock", "release_read": "rwlock", "release_write": "rwlock"},
    "Barrier": {"wait": "barrier", "reset": "barrier_reset", "abort": "barrier_reset"},
    "Condition": {"wait": "condition", "notify": "condition", "notify_all": "condition",
                  "wait_for": "condition_wait_for (without timeout)"},
    "ConnectionPool": {"acquire": "connpool", "release": "connpool", "warmup": "connpool_warmup",
                       "close_all": "connpool_close (only 'no parked waiter strands' is judged afterwards)",
                       "handle_event(_pool_idle_timeout)": "connpool (thorough: idle_timeout=1)"},
    "Bulkhead": {"handle_event(request/_bh_response/_bh_timeout)": "bulkhead"},
    "ThreadPool": {"handle_event(task)": "threadpool", "submit": "threadpool (direct arrivals)"},
    "FixedConcurrency": {"acquire": "limiters, server_fixed, threadpool", "release": "limiters, server_fixed",
                         "has_capacity": "limiters"},
    "DynamicConcurrency": {"acquire": "limiters, server_dynamic", "release": "limiters, server_dynamic",
                           "has_capacity": "limiters", "set_limit": "limiters, server_dynamic",
                           "scale_up": "limiters, server_dynamic", "scale_down": "limiters, server_dynamic",
                           "on_limit_increase": "limiters (listener), server_dynamic (Server's own listener)"},
    "WeightedConcurrency": {"acquire": "limiters", "release": "limiters", "has_capacity": "limiters"},
    "PreemptibleResource": {"acquire(priority, preempt, on_preempt)": "preemptible, preemptible_drain",
                            "PreemptibleGrant.release": "preemptible"},
}
API_NOT_COVERED = [
    "Condition.wait_for(timeout=...) (the timeout is only evaluated at wake-ups; the statement is silent)",
    "ConnectionPool on_acquire/on_release/on_timeout constructor callbacks (observers, no capacity effect)",
    "ThreadPool.get_processing_time_percentile, *.stats and other read-only accessors",
    "WeightedConcurrency behind a Server (the weighted model is covered as a pure object only)",
    "Entity plumbing (set_clock, downstream_entities, forward) and non-request events sent to the primitives",
]

SPEC_DOC = ("worker = (arrival offset ticks, kind, amount, hold ticks, zero-delay hops before the arrival is "
            "delivered[, priority, preempt]); all n-tuples of workers are enumerated, worker index = creation order "
            "of the arrival events (decides same-instant ties)")


def main(tier, seed, only=None):
    run = Run(PID, tier, seed, "model_checking",
              rule=("one execution = one primitive configuration + an ordered tuple of worker specs, run on the real "
                    "Simulation; distinct = distinct (config, tuple); non-trivial = at least one acquirer was blocked, "
                    "refused, timed out or preempted (contention actually happened); states = distinct worker logs "
                    "(request/grant/release sequences with times) observed; transitions = event deliveries; for the "
                    "limiters one execution = one op sequence, non-trivial = some acquire was refused"),
              assumptions=["workers are harness generator processes (acquire -> hold -> release); every holder releases "
                           "after its finite hold, so 'predecessor releases' holds for every waiter",
                           "a worker counts as holder from the moment its acquire returns until it calls release "
                           "(sub-interval of the primitive's own accounting, so observed over-admission is real)",
                           "blocked = the primitive's public waiter/queue counter grew during the acquire call "
                           "(Resource: the returned future is unresolved; ThreadPool: not started within its arrival instant)",
                           "barging by a fresh arrival and ordering across different priorities are not judged",
                           "timeouts: a waiter whose configured wait time has elapsed is exempt from ordering/liveness clauses"])
    run.notes.append({"public_mutating_api_covered(method -> driver)": API_COVERAGE,
                      "not_covered": API_NOT_COVERED})
    if only:
        run.notes.append(f"partial run (--only {sorted(only)}): evidence covers the listed drivers only")
    for name, prim, cfgs, plans in drivers(tier):
        if only and name not in only:
            continue
        run_driver(run, name, prim, cfgs, plans, seed, SPEC_DOC)
    if not only or "limiters" in only:
        run_limiters(run, tier, seed)
    return run.finish()


# ---------------------------------------------------------------------------
# replay
# ---------------------------------------------------------------------------
def _thaw(x):
    return tuple(_thaw(i) for i in x) if isinstance(x, list) else x


def replay(data):
    rep = data["replay"]
    want = data.get("fingerprint")
    if rep.get("driver") == "limiters":
        seq = _thaw(rep["ops"])
        viol, trace, final = limiter_run(rep["limiter"], rep["limit"], seq)
        print(f"limiter {rep['limiter']}Concurrency limit={rep['limit']}")
        for t in trace:
            print("  op", t)
        print("  final (held, active, available, limit):", final)
        fps = [f"{rep['limiter']}Concurrency/{c}/{s}" for c, s, _d, _i in viol]
        for (c, s, dsc, _i) in viol:
            print(f"  !! {rep['limiter']}Concurrency/{c}/{s}: {dsc}")
        return 1 if (want in fps if want else fps) else 0
    specs = _thaw(rep["workers"])
    print(f"primitive {rep['prim']} config {rep['cfg']}")
    for i, s in enumerate(specs):
        print(f"  w{i}: offset={s[0]}t kind={s[1]} amount={s[2]} hold={s[3]}t hops={s[4]}"
              + (f" priority={s[5]} preempt={bool(s[6])}" if len(s) > 5 else ""))
    W = run_case(rep["prim"], rep["cfg"], specs)
    for (t, k, i, x) in W.log:
        print(f"  t={t / TICK:g}t  w{i} {k}" + (f" [{x}]" if x is not None else ""))
    print(f"  outcome={W.outcome} deliveries={W.deliveries}")
    fps = fingerprints(W)
    for fp, desc in fps:
        print(f"  !! {fp}: {desc}")
    names = [fp for fp, _ in fps]
    return 1 if (want in names if want else names) else 0

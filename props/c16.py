"""C16 — caches stay within capacity, never lose writes, respect staleness bounds.

Engines E2/E3 on the real implementation:

* ``cs-seq`` / ``mtc-seq``   breadth-first search over ALL operation sequences up to a depth (canonical
  state dedup; merged states have the same futures because every field the cache, the policy and the
  backing store read is in the canon, values renamed by first occurrence = data independence), every
  operation run to completion inside a real ``Simulation`` by a harness client process.
* ``cs-overlap`` / ``mtc-overlap`` / ``warm``   two (thorough: also three) client processes whose
  operations overlap in simulated time, ALL start offsets on a grid finer than the store latencies,
  from several pre-states, followed by a quiescent epilogue (reads, flush, invalidate + reads).
* ``sttl``   ALL timelines of n accesses to a ``SoftTTLCache`` on a tick grid straddling soft and hard
  TTL, over a backing store that changes every tick (and may lose the key).
* ``wpol``, ``pagecache-seq``   the write-policy bookkeeping objects and ``PageCache``.

Oracle (each clause = one phrase of the statement): size <= capacity and policy-tracked keys == held
keys after every operation (policy keys = what a deep copy of the policy hands out through its public
``evict()``); a read issued after a completed write returns that value or a later one (interval
register, ties lenient); after ``flush`` at quiescence the backing store holds every acknowledged
write-back write; a soft-TTL read never returns something the backing store stopped holding more than
hard_ttl before the read was issued.
"""
from __future__ import annotations

import time

from mc.evidence import Run
from mc.harness import pmap, rotate

from props.c16_common import POLICIES, SEEDED
from props.c16_misc import pc_job, replay_pc, replay_wpol, wpol_job
from props.c16_overlap import overlap_job, replay_overlap, warm_job
from props.c16_seq import replay_seq, seq_job
from props.c16_sttl import replay_sttl, sttl_job

PID = "C16"

CS_ALPHABET = [("get", "a"), ("put", "a"), ("del", "a"), ("inv", "a"), ("flush",), ("get", "b"), ("put", "b")]
CS_PREFIXES = [[], [("get", "a")], [("put", "a")], [("get", "b")], [("put", "b")],
               [("put", "a"), ("put", "b")], [("get", "a"), ("get", "b")]]
MTC_ALPHABET = [("get", "a"), ("put", "a"), ("del", "a"), ("inv", "a"), ("g2", "a"), ("get", "b"), ("put", "b")]
MTC_PREFIXES = [[], [("get", "a")], [("g2", "a")], [("put", "a")], [("g2", "a"), ("get", "b")], [("get", "b")]]
STTL_ALPHABET = [("get", "a"), ("put", "a"), ("inv", "a"), ("get", "b")]
WARM_ALPHABET = [("get", "a"), ("put", "a"), ("del", "a"), ("inv", "a"), ("put", "b"), ("del", "b"), ("get", "b")]


def _seeds(pol, tier):
    if pol in SEEDED:
        return [1] if tier == "quick" else [1, 2, 3, 4]
    return [1]


# ---------------------------------------------------------------------------
# configuration spaces
# ---------------------------------------------------------------------------
def cs_seq_cfgs(tier):
    depth = 5 if tier == "quick" else 7
    out = []
    for pol in POLICIES:
        for wt in (True, False):
            for cap in (1, 2):
                for rs in _seeds(pol, tier):
                    out.append({"driver": "cs-seq", "sys": "cs", "pol": pol, "wt": wt, "cap": cap, "depth": depth,
                                "rseed": rs, "inv_all": True})
    return out


def cs_overlap_cfgs(tier):
    out = []
    for pol in POLICIES:
        for wt in (True, False):
            for cap in (1, 2):
                for lat in ("R4W2D3", "R2W4D1"):
                    if tier == "quick" and lat == "R2W4D1" and pol != "LRU":
                        continue  # quick: the second latency set with one policy only
                    out.append({"driver": "cs-overlap", "sys": "cs", "pol": pol, "wt": wt, "cap": cap, "lat": lat,
                                "rseed": 1, "n_conc": 2, "span_half": 12, "step_half": 2 if tier == "quick" else 1,
                                "alphabet": CS_ALPHABET, "prefixes": CS_PREFIXES})
    return out


def cs_overlap3_cfgs():
    out = []
    for pol in ("LRU", "LFU", "Clock"):
        for wt in (True, False):
            for cap in (1, 2):
                for lat in ("R4W2D3", "R2W4D1"):
                    out.append({"driver": "cs-overlap3", "sys": "cs", "pol": pol, "wt": wt, "cap": cap, "lat": lat,
                                "rseed": 1, "n_conc": 3, "span_half": 8, "step_half": 2,
                                "alphabet": [("get", "a"), ("put", "a"), ("del", "a"), ("flush",), ("put", "b")],
                                "prefixes": [[], [("put", "a")]]})
    return out


W3_TUPLES = [(("put", "a"), ("put", "a"), ("get", "a")), (("del", "a"), ("put", "a"), ("get", "a")),
             (("put", "a"), ("del", "a"), ("get", "a")), (("put", "a"), ("put", "a"), ("iget", "a")),
             (("del", "a"), ("put", "a"), ("iget", "a")), (("put", "a"), ("del", "a"), ("iget", "a"))]


def cs_writes3_cfgs():
    """Sharp triple family (both tiers): two overlapping writes of one key plus a read of it (plain, or
    preceded by an invalidate so that it is a sure miss), full offset product on the integer grid."""
    out = []
    for pol in ("LRU", "FIFO"):
        for wt in (True, False):
            for cap in (1, 2):
                for lat in ("R4W2D3", "R2W4D1"):
                    out.append({"driver": "cs-writes3", "sys": "cs", "pol": pol, "wt": wt, "cap": cap, "lat": lat,
                                "rseed": 1, "n_conc": 3, "span_half": 12, "step_half": 2,
                                "alphabet": [("put", "a"), ("del", "a"), ("get", "a"), ("iget", "a")],
                                "tuples": W3_TUPLES, "prefixes": [[], [("get", "a")]]})
    return out


def mtc_seq_cfgs(tier):
    out = []
    pols = ["LRU", "LFU", "Clock"] if tier == "quick" else POLICIES
    for pol in pols:
        for promo in ("always", "on_second_access", "never"):
            for cap in (1, 2):
                # a write-back L1 is explored for three representative policies only (thorough)
                # and, in quick, for LRU
                wb_too = pol in ("LRU", "LFU", "Clock") if tier != "quick" else pol == "LRU"
                for wt in ((True, False) if wb_too else (True,)):
                    out.append({"driver": "mtc-seq", "sys": "mtc", "pol": pol, "promo": promo, "cap": cap, "wt": wt,
                                "depth": 4 if tier == "quick" else 5, "rseed": 1})
    return out


def mtc_overlap_cfgs(tier):
    out = []
    pols = ["LRU"] if tier == "quick" else ["LRU", "LFU", "Clock", "TwoQueue"]
    for pol in pols:
        for promo in ("always", "on_second_access", "never"):
            for cap in (1, 2):
                for lat in ("R4W2D3", "R2W4D1"):
                    out.append({"driver": "mtc-overlap", "sys": "mtc", "pol": pol, "promo": promo, "cap": cap,
                                "wt": True, "lat": lat, "rseed": 1, "n_conc": 2, "span_half": 12,
                                "step_half": 2 if tier == "quick" else 1,
                                "alphabet": MTC_ALPHABET, "prefixes": MTC_PREFIXES})
                    if tier != "quick" and pol == "LRU":
                        # write-back L1 (flush = the tier's own flush), integer offsets
                        out.append({"driver": "mtc-overlap", "sys": "mtc", "pol": pol, "promo": promo, "cap": cap,
                                    "wt": False, "lat": lat, "rseed": 1, "n_conc": 2, "span_half": 12, "step_half": 2,
                                    "alphabet": MTC_ALPHABET + [("flush",)], "prefixes": MTC_PREFIXES})
    return out


def sttl_cfgs(tier):
    """Accesses sit on integer ticks and every latency is an integer, so every fill / put / refresh
    completes on the grid and reads issued exactly at completion + soft_ttl and completion + hard_ttl
    are part of every timeline family (counted in the evidence as boundary reads)."""
    out = []

    def add(soft, hard, L, cap, dh, n):
        out.append({"soft": soft, "hard": hard, "L": L, "W": 1, "cap": cap, "del_half": dh, "n": n,
                    "grid": 9, "alphabet": STTL_ALPHABET})

    for L in (1, 3):
        for cap in (None, 1):
            for dh in (None, 5, 11):
                add(2, 4, L, cap, dh, 3 if tier == "quick" else 4)
    # hard_ttl no longer than the store's read latency (soft < hard < L and hard == L): a refresh outlives the
    # entry's validity, and a read that joins it late gets a refreshed entry that is itself expired
    slow = ((0, 1, 3), (1, 2, 3), (1, 3, 3), (0, 2, 2), (0, 1, 4))
    for soft, hard, L in slow:
        if tier == "quick":
            add(soft, hard, L, None, None, 3)
        else:
            for cap in (None, 1):
                for dh in (None, 5, 11):
                    add(soft, hard, L, cap, dh, 3)
    if tier != "quick":
        add(0, 1, 3, None, None, 4)
        add(1, 2, 3, None, None, 4)
    if tier == "quick":
        # hard == soft, always-stale and tiny TTLs, zero / even read latency: one capacity, fewer delete instants
        for soft, hard, L in ((2, 2, 1), (0, 2, 1), (1, 3, 2), (2, 4, 0), (2, 4, 2)):
            for dh in (None, 5):
                add(soft, hard, L, None, dh, 3)
    else:
        for soft, hard in ((1, 3), (0, 2), (2, 2), (0, 0), (1, 1)):
            for L in (1, 3):
                for cap in (None, 1):
                    for dh in (None, 5, 11):
                        add(soft, hard, L, cap, dh, 3)
        for L in (0, 2):
            for soft, hard in ((2, 4), (1, 3)):
                for cap in (None, 1):
                    for dh in (None, 5, 11):
                        add(soft, hard, L, cap, dh, 3)
    return out


def warm_cfgs():
    out = []
    for pol in ("LRU", "FIFO", "TwoQueue"):
        for wt in (True, False):
            for cap in (1, 2):
                for lat in ("R4W2D3", "R2W4D1"):
                    out.append({"driver": "warm", "sys": "cs", "pol": pol, "wt": wt, "cap": cap, "lat": lat,
                                "rseed": 1, "t_a": 0, "span_half": 32, "step_half": 1, "alphabet": WARM_ALPHABET})
    return out


def pc_cfgs():
    return [{"cap": cap, "ra": ra, "pages": 3, "depth": 7} for cap in (1, 2) for ra in (0, 1)]


# ---------------------------------------------------------------------------
def _absorb(run, d, results, states_key="states"):
    outcomes = set()
    for st in results:
        d.transitions += st["transitions"]
        d.nontrivial += st["nontrivial"]
        if "states" in st:
            d.states += st["states"]
            d.executions += st["transitions"]  # every transition is one operation run on a real Simulation
        else:
            d.executions += st["executions"]
        oc = st["outcomes"]
        if isinstance(oc, int):
            d.outcomes += oc
        else:
            outcomes |= {repr(o) for o in oc}
        if st.get("max_seconds_hit"):
            d.exhaustive = False
            d.caps.append(f"max_seconds in {st['cfg']}")
        d.extra["unfinished_ops"] = d.extra.get("unfinished_ops", 0) + st.get("unfinished", 0)
        if "closed" in st:
            d.extra["configs_whose_state_space_closed_below_depth_bound"] = \
                d.extra.get("configs_whose_state_space_closed_below_depth_bound", 0) + int(st["closed"])
            d.extra["deepest_level_explored"] = max(d.extra.get("deepest_level_explored", 0), len(st["levels"]))
        for fp, (desc, rep) in st["viol"].items():
            run.violation(fp, desc, rep)
        if len(d.samples) < 3:
            d.samples.extend(st["samples"][:1])
    if outcomes:
        d.outcomes = len(outcomes)
    if not d.states:
        d.states = d.outcomes


def _dispatch(item):
    name, fn, job = item
    t0 = time.time()
    st = {"seq": seq_job, "overlap": overlap_job, "sttl": sttl_job, "wpol": wpol_job, "warm": warm_job,
          "pc": pc_job}[fn](job)
    st["t_start"], st["t_end"] = t0, time.time()
    return name, st


def _confirm(run):
    """Re-run every violating case from its replay data (no explorer) before reporting it."""
    for fp in list(run.violations):
        desc, rep = run.violations[fp]
        try:
            again = _replay_fps(rep, quiet=True)
        except Exception as exc:  # noqa: BLE001
            again = []
            run.notes.append(f"replay of {fp} raised {type(exc).__name__}: {exc}")
        if fp not in again:
            run.notes.append(f"NOT REPRODUCED from replay data (dropped): {fp}")
            del run.violations[fp]
            run.violation_counts.pop(fp, None)


def _replay_fps(rep, quiet=False):
    import contextlib
    import io
    drv = rep["driver"]
    fn = {"cs-seq": replay_seq, "mtc-seq": replay_seq, "cs-overlap": replay_overlap, "cs-overlap3": replay_overlap, "cs-writes3": replay_overlap,
          "mtc-overlap": replay_overlap, "warm": replay_overlap, "sttl": replay_sttl, "wpol": replay_wpol,
          "pagecache-seq": replay_pc}[drv]
    if quiet:
        with contextlib.redirect_stdout(io.StringIO()):
            return fn(rep)
    return fn(rep)


def main(tier, seed, only=None):
    run = Run(PID, tier, seed, "model_checking",
              rule=("*-seq drivers: every operation sequence up to the depth bound (BFS, canonical-state dedup), each "
                    "operation executed inside a real Simulation; states = distinct canonical states, transitions = "
                    "operations executed, non-trivial = transitions that evicted an entry or wrote one back. "
                    "*-overlap / warm: every (pre-state, operation tuple, start offsets) case = one execution; "
                    "non-trivial = the concurrent operations' [issue, completion] intervals intersect; states = "
                    "distinct result logs. sttl: every timeline of accesses = one execution; non-trivial = a stale "
                    "hit, a coalesced read or an eviction happened."),
              assumptions=["one tick = 1 s; all latencies and offsets are multiples of 0.5 s, hence exact in ns",
                           "TTLEviction reads the simulated clock of its cache (clock_func), Random/SampledLRU "
                           "policies use seeded constructors (all seeds of a fixed list are explored)",
                           "policy-tracked keys are observed by draining a deep copy of the policy with evict()",
                           "soft-TTL: a served entry's age is judged when the cache read behind the response starts: at issue "
                           "for a hit, no earlier than cache_read_latency before completion for reads that waited",
                           "soft-TTL: the backing store is rewritten every tick by a harness process so that the age "
                           "of a served value is observable; it may delete the key (environment move)",
                           "same-instant completion/issue pairs are treated as concurrent by the register oracle"])

    def want(name):
        return not only or name in only

    plan = []  # (driver name, bounds, job function name, jobs)
    if want("cs-seq"):
        cfgs = cs_seq_cfgs(tier)
        plan.append(("cs-seq", {"component": "CachedStore", "policies": POLICIES,
                                "write_modes": ["write-through", "write-back"], "capacity": [1, 2],
                                "keys": ["a", "b", "c"], "depth": cfgs[0]["depth"],
                                "ops": "get/put/delete/invalidate x key, flush"
                                       + ", invalidate_all",
                                "seeds(Random,SampledLRU)": _seeds("Random", tier), "configs": len(cfgs)},
                     "seq", cfgs))
    if want("cs-overlap"):
        cfgs = cs_overlap_cfgs(tier)
        plan.append(("cs-overlap", {"component": "CachedStore", "policies": POLICIES, "write_modes": 2,
                                    "capacity": [1, 2],
                                    "latency_sets(read,write,delete ticks)": sorted({c["lat"] for c in cfgs}),
                                    "concurrent_ops": 2, "alphabet": CS_ALPHABET, "pre_states": CS_PREFIXES,
                                    "offset_grid_ticks": f"-6..6 step {cfgs[0]['step_half'] / 2}",
                                    "configs": len(cfgs)}, "overlap", cfgs))
    if want("cs-writes3"):
        cfgs = cs_writes3_cfgs()
        plan.append(("cs-writes3", {"component": "CachedStore", "concurrent_ops": 3, "policies": ["LRU", "FIFO"],
                                    "write_modes": 2, "capacity": [1, 2], "latency_sets": ["R4W2D3", "R2W4D1"],
                                    "op_tuples": W3_TUPLES, "pre_states": [[], [("get", "a")]],
                                    "offset_grid_ticks": "-6..6 step 1 (full product)", "configs": len(cfgs)},
                     "overlap", cfgs))
    if want("mtc-seq"):
        cfgs = mtc_seq_cfgs(tier)
        plan.append(("mtc-seq", {"component": "MultiTierCache (2 CachedStore tiers)", "depth": cfgs[0]["depth"],
                                 "l1_policies": sorted({c["pol"] for c in cfgs}),
                                 "promotion": ["always", "on_second_access", "never"], "l1_capacity": [1, 2],
                                 "l1_write_modes": sorted({"write-through" if c["wt"] else "write-back" for c in cfgs}),
                                 "ops": "get/put/delete/invalidate/read-through-L2 x key (+ L1 flush when write-back)",
                                 "configs": len(cfgs)}, "seq", cfgs))
    if want("mtc-overlap"):
        cfgs = mtc_overlap_cfgs(tier)
        plan.append(("mtc-overlap", {"component": "MultiTierCache", "concurrent_ops": 2, "alphabet": MTC_ALPHABET,
                                     "pre_states": MTC_PREFIXES,
                                     "offset_grid_ticks": f"-6..6 step {cfgs[0]['step_half'] / 2}",
                                     "l1_policies": sorted({c["pol"] for c in cfgs}), "configs": len(cfgs)},
                     "overlap", cfgs))
    if want("sttl"):
        cfgs = sttl_cfgs(tier)
        plan.append(("sttl", {"component": "SoftTTLCache",
                              "soft/hard ttl ticks": sorted({(c["soft"], c["hard"]) for c in cfgs}),
                              "backing_read_latency": sorted({c["L"] for c in cfgs}), "capacity": [None, 1],
                              "backing delete at tick": [None, 3.25, 6.25],
                              "accesses": sorted({c["n"] for c in cfgs}), "grid_ticks": "0..9",
                              "alphabet": STTL_ALPHABET, "configs": len(cfgs)},
                     "sttl", [(c, fk) for c in cfgs for fk in STTL_ALPHABET]))
    if want("wpol"):
        depth = 4 if tier == "quick" else 6
        plan.append(("wpol", {"component": "WriteBack/WriteAround/WriteThrough bookkeeping", "depth": depth},
                     "wpol", [depth]))
    if tier != "quick":
        if want("cs-overlap3"):
            cfgs = cs_overlap3_cfgs()
            plan.append(("cs-overlap3", {"component": "CachedStore", "concurrent_ops": 3,
                                         "policies": ["LRU", "LFU", "Clock"], "alphabet": cfgs[0]["alphabet"],
                                         "pre_states": cfgs[0]["prefixes"], "offset_grid_ticks": "-4..4 step 1",
                                         "latency_sets": ["R4W2D3", "R2W4D1"], "configs": len(cfgs)},
                         "overlap", cfgs))
        if want("warm"):
            cfgs = warm_cfgs()
            plan.append(("warm", {"component": "CacheWarmer over CachedStore", "alphabet": WARM_ALPHABET,
                                  "offset_grid_ticks": "0..16 step 0.5", "configs": len(cfgs)}, "warm", cfgs))
        if want("pagecache-seq"):
            cfgs = pc_cfgs()
            plan.append(("pagecache-seq", {"component": "PageCache", "capacity": [1, 2], "readahead": [0, 1],
                                           "pages": 3, "depth": 7, "ops": "read_page/write_page x page, flush"},
                         "pc", cfgs))
    # one pool pass over every independent sub-space of every driver (no barrier between drivers)
    items = []
    for name, _b, fn, jobs in plan:
        items += [(name, fn, j) for j in rotate(jobs, seed)]
    items.sort(key=lambda it: {"seq": 0, "overlap": 1, "sttl": 2}.get(it[1], 3))  # big jobs first (stable)
    results = pmap(_dispatch, items)
    for name, bounds, _fn, _jobs in plan:
        d = run.driver(name, bounds)
        mine = [r for n, r in results if n == name]
        _absorb(run, d, mine)
        d.wall_s = max(r["t_end"] for r in mine) - min(r["t_start"] for r in mine)
        d.extra["worker_seconds"] = round(sum(r["t_end"] - r["t_start"] for r in mine), 1)
        if name == "sttl":
            paths = {}
            for st in mine:
                for p_, c in st["paths"].items():
                    paths[p_] = paths.get(p_, 0) + c
            d.extra["read_paths"] = paths
            for k in ("reads_issued_exactly_at_store_completion_plus_hard_ttl",
                      "reads_issued_exactly_at_store_completion_plus_soft_ttl"):
                d.extra[k] = sum(st.get(k, 0) for st in mine)
    run.notes.append("soft-TTL boundary: the statement forbids serving an entry OLDER than its hard TTL; an entry "
                     "whose age equals hard_ttl at the instant it is judged is not older, so the oracle's "
                     "window [judged - hard_ttl, completion] is closed (the library's own docstring is stricter: "
                     "'Expired: age >= hard_ttl'; that contract is not part of C16 and is not judged). Reads issued "
                     "exactly at store completion + soft_ttl / + hard_ttl are explored and counted in the sttl driver.")
    _confirm(run)
    return run.finish()


def replay(data):
    rep = data["replay"]
    found = _replay_fps(rep)
    ok = data["fingerprint"] in found
    print(f"fingerprint {data['fingerprint']}: {'REPRODUCED' if ok else 'not reproduced'}")
    return 1 if ok else 0

def run_pipes(run, tier, seed, only):
    return
def replay(rep):
    return []

"""C08 group 2 — queue-fronted pipelines inside a real ``Simulation``.

One execution = one configuration of a pipeline + one arrival pattern: a multiset
of tagged requests, each with an arrival tick, a hop count (number of zero-delay
forwarders it travels through: changes creation order on the arrival instant),
a service time and, where the pipeline uses them, a priority / weight / owned
random answer.  Everything is whole ticks of 1 s (exact nanoseconds).

Oracle clauses (each tied to a phrase of the property statement):

  in-service-exceeds-limit   "work in service never exceeds the concurrency limit"
                             (after EVERY delivery, through control.on_event)
  not-exactly-one-state      "each event offered ... is at every instant exactly one of
                             rejected-and-counted, waiting, in service, completed exactly once"
                             (at every clock advance = the settled state of the previous instant,
                             and at quiescence): per tag where the harness can see the tag,
                             and through the public counters
  accepted-item-discarded    an item the queue had accepted is thrown away later (never
                             served, never completed): "never lose ... work"
  duplicated                 a tag is started / completed twice
  stranded                   "no simulated time passes while an item waits and the worker
                             has free capacity for it"
  order                      "items leave a queue in the order its policy defines"
  counters                   "rejected-and-counted" / counters add up at quiescence
  livelock                   explicit horizon (a frozen clock is an outcome, never a hang)
"""
from __future__ import annotations

import itertools
import random as _random
import time

from mc.evidence import digest
from mc.harness import Entity, Event, Fwd, Instant, Simulation, pmap, rotate, run_guarded

from happysimulator.components.industrial.balking import BalkingQueue
from happysimulator.components.industrial.batch_processor import BatchProcessor
from happysimulator.components.industrial.conveyor import ConveyorBelt
from happysimulator.components.industrial.gate_controller import GateController
from happysimulator.components.industrial.pooled_cycle import PooledCycleResource
from happysimulator.components.industrial.reneging import RenegingQueuedResource
from happysimulator.components.industrial.shift_schedule import Shift, ShiftedServer, ShiftSchedule
from happysimulator.components.queue import Queue
from happysimulator.components.queue_driver import QueueDriver
from happysimulator.components.queue_policies import AdaptiveLIFO, CoDelQueue, DeadlineQueue
from happysimulator.components.queue_policy import FIFOQueue, LIFOQueue, PriorityQueue, QueuePolicy
from happysimulator.components.queued_resource import QueuedResource
from happysimulator.components.server.concurrency import (
    DynamicConcurrency,
    FixedConcurrency,
    WeightedConcurrency,
)
from happysimulator.components.server.server import Server
from happysimulator.core.event import ProcessContinuation
from happysimulator.distributions.latency_distribution import LatencyDistribution
from happysimulator.core.temporal import Duration

SEC = 1_000_000_000
INF = float("inf")
HORIZON_T = 12  # keep-alive tick: lets daemon-driven schedules (shifts, gates) play out
MAX_EVENTS = 4000
STORM = 400


def _tag(ev):
    md = ev.context.get("metadata") if isinstance(ev.context, dict) else None
    return md.get("tag") if md else None


def key_prio(ev):
    return ev.context["metadata"]["prio"]


def key_deadline(ev):
    """Deadline of a request = the instant it was created + its ``prio`` attribute in ticks."""
    return ev.context["created_at"] + float(ev.context["metadata"]["prio"])


ADAPTIVE_THR = 2


class Script:
    ans = 0.999999


def _scripted_random():
    return Script.ans


# ---------------------------------------------------------------------------
# observation
# ---------------------------------------------------------------------------
class Obs:
    """What the harness saw of one pipeline stage, per tag (times in ticks)."""

    def __init__(self, name):
        self.name = name
        self.clock = None  # an entity of the simulation (public ``now``)
        self.pushed = {}  # tag -> (t, accepted)
        self.push_order = []  # tags in push order
        self.waiting = []  # accepted, not popped, push order (reference queue)
        self.popped = {}  # tag -> t
        self.pop_order = []
        self.started = {}  # tag -> [t]
        self.finished = {}  # tag -> [t]
        self.sunk = {}  # tag -> [t]
        self.other = {}  # tag -> [t]   (reneged ...)
        self.viol = []  # (clause, shape, description)
        self.policy_kind = None
        self.meta = {}  # tag -> metadata dict
        self.arr_times = {}  # tag -> scheduled arrival tick
        self.changes = set()  # ticks at which the harness changed capacity (knob / shift / gate)
        self.upstream = None  # Obs of the previous stage (tandem): our push is its completion
        self.pop_hook = None  # pipeline-specific check right after the queue released an item
        self.ever_waited = []  # entity pipelines: tags that had to queue, in queue order
        self.discard_reported = False
        self.clauses_failed = set()
        self.lowered = set()  # ticks at which the harness LOWERED a limit
        self.sunk_seq = []  # tags in the order their completions arrived downstream

    def now(self):
        return self.clock.now.nanoseconds // SEC

    def v(self, clause, desc, t=None, shape=None):
        """Record the FIRST failure of a clause in this execution (later ones are consequences)."""
        if clause in self.clauses_failed:
            return
        self.clauses_failed.add(clause)
        if shape is None:
            shape = self.shape(clause, self.now() if t is None else t)
        self.viol.append((clause, shape, desc))

    # -- shape class of the instant a clause failed at (small, clause-specific vocabulary) --------
    def shape(self, clause, t):
        if any(c <= t for c in self.changes):
            return "after-capacity-change"
        if clause == "stranded":
            return "idle-capacity"
        times = [a for (a, _acc) in self.pushed.values()] or list(self.arr_times.values())
        arr = sum(1 for a in times if a == t)
        fin = any(t in ts for ts in self.finished.values()) or any(t in ts for ts in self.sunk.values())
        if fin and arr:
            return "arrival-on-completion-instant"
        if arr >= 2:
            return "same-instant-arrivals"
        return "other"

    # -- Tap callbacks -------------------------------------------------------
    def on_push(self, ev, accepted):
        tag = _tag(ev)
        if tag is None:
            return
        t = self.now()
        if self.upstream is not None:
            self.upstream.on_sink(tag)
        if tag in self.pushed:
            self.v("duplicated", f"tag {tag} was offered to the queue twice (t={self.pushed[tag][0]} and t={t})")
            return
        self.pushed[tag] = (t, bool(accepted))
        self.push_order.append(tag)
        self.meta[tag] = ev.context["metadata"]
        if accepted:
            self.waiting.append(tag)

    def on_pop(self, ev):
        tag = _tag(ev)
        if tag is None:
            return
        t = self.now()
        if tag not in self.waiting:
            self.v("duplicated", f"queue released tag {tag} at t={t} which it was not holding "
                                 f"(waiting={self.waiting}, released before: {tag in self.popped})")
            return
        exp = self.expected_next()
        if tag not in exp:
            self.v("order", f"at t={t} the {self.policy_kind} queue released tag {tag}; its policy defines "
                            f"{exp} (waiting in arrival order: {self.waiting})")
        self.waiting.remove(tag)
        self.popped[tag] = t
        self.pop_order.append(tag)
        if self.pop_hook is not None:
            self.pop_hook(tag, t)

    def expected_next(self):
        w = self.waiting
        if not w:
            return []
        k = self.policy_kind
        if k == "FIFO":
            return [w[0]]
        if k == "LIFO":
            return [w[-1]]
        if k == "Priority":
            best = min(w, key=lambda g: (self.meta[g]["prio"], w.index(g)))
            return [best]
        if k == "Deadline":
            now = self.now()
            live = [g for g in w if self.deadline(g) >= now]
            return [min(live, key=lambda g: (self.deadline(g), w.index(g)))] if live else []
        if k == "Adaptive":
            if len(w) > ADAPTIVE_THR:
                return [w[-1]]
            if len(w) < ADAPTIVE_THR:
                return [w[0]]
            return [w[0], w[-1]]  # the boundary is documented both ways
        if k == "CoDel":
            return [w[0]]
        return list(w)

    def deadline(self, tag):
        return self.arr_times[tag] + self.meta[tag]["prio"]

    def on_policy_drop(self, n):
        """The policy discarded ``n`` accepted items on its own (expired deadline / CoDel) and counted them
        in its public stats: they end as 'rejected-and-counted'."""
        t = self.now()
        w = self.waiting
        if self.policy_kind == "Deadline":
            victims = sorted(w, key=lambda g: (self.deadline(g), w.index(g)))[:n]
            early = [g for g in victims if self.deadline(g) >= t]
            if early:
                self.v("accepted-item-discarded", f"at t={t} the deadline queue dropped tag(s) {early} as expired "
                                                  f"although their deadlines {[self.deadline(g) for g in early]} "
                                                  f"had not passed")
        else:
            victims = list(w[:n])
        for g in victims:
            w.remove(g)
            self.other.setdefault(g, []).append(t)

    # -- worker / sink callbacks --------------------------------------------
    def on_start(self, tag):
        self.started.setdefault(tag, []).append(self.now())
        if len(self.started[tag]) > 1:
            self.v("duplicated", f"tag {tag} entered service twice (t={self.started[tag]})")

    def on_finish(self, tag):
        self.finished.setdefault(tag, []).append(self.now())

    def on_sink(self, tag):
        self.sunk.setdefault(tag, []).append(self.now())
        self.sunk_seq.append(tag)
        if len(self.sunk[tag]) > 1:
            self.v("duplicated", f"tag {tag} completed twice (t={self.sunk[tag]})")

    def on_other(self, tag):
        self.other.setdefault(tag, []).append(self.now())

    def trace(self):
        tags = sorted(set(self.arr_times) | set(self.pushed))
        return tuple((g, self.pushed.get(g), self.popped.get(g), tuple(self.started.get(g, ())),
                      tuple(self.finished.get(g, ())), tuple(self.sunk.get(g, ())), tuple(self.other.get(g, ())))
                     for g in tags)


class Tap(QueuePolicy):
    """Harness queue-policy wrapper (same extension point BalkingQueue uses): delegates
    everything to the real policy and reports pushes / pops to the observer."""

    def __init__(self, inner, obs, scripted=False):
        self._inner = inner
        self._obs = obs
        self._scripted = scripted

    @property
    def capacity(self):
        return self._inner.capacity

    def push(self, item):
        if self._scripted:
            Script.ans = item.context["metadata"].get("r", 0.999999)
        r = self._inner.push(item)
        self._obs.on_push(item, r)
        return r

    def policy_drops(self):
        """Items the wrapped policy discarded by itself, from its public stats (None = it never does)."""
        st = getattr(self._inner, "stats", None)
        for name in ("expired", "dropped"):
            if hasattr(st, name):
                return getattr(st, name)
        return None

    def pop(self):
        before = self.policy_drops()
        it = self._inner.pop()
        n = (self.policy_drops() - before) if before is not None else 0
        if n and self._obs.policy_kind == "Deadline":
            self._obs.on_policy_drop(n)  # expired entries are purged before the live head is handed out
        if it is not None:
            self._obs.on_pop(it)
        if n and self._obs.policy_kind != "Deadline":
            self._obs.on_policy_drop(n)  # CoDel drops head-of-line items behind the one it hands out
        return it

    def peek(self):
        return self._inner.peek()

    def is_empty(self):
        return self._inner.is_empty()

    def __len__(self):
        return len(self._inner)


def _ensure_policy_used(resource, obs):
    """The queue policy handed to the constructor must be the one the component's queue uses
    ("items leave a queue in the order ITS policy defines").  If the component replaced it, report
    that and wrap the policy actually in use so the remaining clauses can still be observed."""
    actual = resource.queue.policy
    if isinstance(actual, Tap):
        return
    obs.v("order", f"{type(resource).__name__} was constructed with policy=<the harness's policy object> but its "
                   f"queue uses a different {type(actual).__name__}(capacity={actual.capacity}): the configured "
                   f"ordering / capacity is ignored", shape="configured-policy-ignored")
    resource.queue.policy = Tap(actual, obs)


class Sink(Entity):
    def __init__(self, name, cb):
        super().__init__(name)
        self.cb = cb

    def handle_event(self, event):
        tag = _tag(event)
        if tag is not None:
            self.cb(tag)
        return None


class Knob(Entity):
    """Harness actor that changes a limit at a scheduled time through the public API."""

    def __init__(self, name, fn, obs):
        super().__init__(name)
        self.fn = fn
        self.obs = obs

    def handle_event(self, event):
        self.obs.changes.add(self.now.nanoseconds // SEC)
        return self.fn(event.context["metadata"]["arg"])


def make_policy(kind, cap, obs=None):
    c = INF if cap is None else cap
    if kind == "Deadline":
        return DeadlineQueue(get_deadline=key_deadline, capacity=cap, clock_func=lambda: obs.clock.now)
    if kind == "Adaptive":
        return AdaptiveLIFO(congestion_threshold=ADAPTIVE_THR, capacity=cap)
    if kind == "CoDel":
        return CoDelQueue(target_delay=1.0, interval=1.0, capacity=cap, clock_func=lambda: obs.clock.now)
    if kind == "FIFO":
        return FIFOQueue(capacity=c)
    if kind == "LIFO":
        return LIFOQueue(capacity=c)
    if kind == "Priority":
        return PriorityQueue(capacity=c, key=key_prio)
    raise AssertionError(kind)


# ---------------------------------------------------------------------------
# workers written by the harness (they see tags, starts and finishes)
# ---------------------------------------------------------------------------
class Worker(Entity):
    """Target of a hand-wired Queue + QueueDriver."""

    def __init__(self, name, obs, concurrency, downstream):
        super().__init__(name)
        self.obs, self.concurrency, self.downstream, self._in_flight = obs, concurrency, downstream, 0

    def has_capacity(self):
        return self._in_flight < self.concurrency

    def handle_event(self, event):
        md = event.context["metadata"]
        self._in_flight += 1
        self.obs.on_start(md["tag"])
        try:
            yield float(md["svc"])
        finally:
            self._in_flight -= 1
        self.obs.on_finish(md["tag"])
        return [Event(time=self.now, event_type="Done", target=self.downstream, context=event.context)]


class DocServer(QueuedResource):
    """QueuedResource subclass written exactly as /repo/CLAUDE.md documents (``MyServer``);
    the only additions are the observer calls and the per-request service time."""

    def __init__(self, name, downstream, concurrency=1, policy=None, obs=None):
        super().__init__(name, policy=policy)
        self.downstream, self.concurrency, self._in_flight = downstream, concurrency, 0
        self.obs = obs

    def has_capacity(self) -> bool:
        return self._in_flight < self.concurrency

    def handle_queued_event(self, event):
        md = event.context["metadata"]
        self._in_flight += 1
        self.obs.on_start(md["tag"])
        try:
            yield float(md["svc"])
        finally:
            self._in_flight -= 1
        self.obs.on_finish(md["tag"])
        return [Event(time=self.now, event_type="Done", target=self.downstream, context=event.context)]


class DocReneging(RenegingQueuedResource):
    def __init__(self, name, downstream, reneged_target, patience, concurrency, policy, obs):
        super().__init__(name, reneged_target=reneged_target, default_patience_s=patience, policy=policy)
        self.downstream, self.concurrency, self._in_flight, self.obs = downstream, concurrency, 0, obs

    def has_capacity(self) -> bool:
        return self._in_flight < self.concurrency

    def _handle_served_event(self, event):
        md = event.context["metadata"]
        self._in_flight += 1
        self.obs.on_start(md["tag"])
        try:
            yield float(md["svc"])
        finally:
            self._in_flight -= 1
        self.obs.on_finish(md["tag"])
        return [Event(time=self.now, event_type="Done", target=self.downstream, context=event.context)]


class SvcSeq(LatencyDistribution):
    """Service time of the k-th request a Server starts (owned 'service-time sequence')."""

    def __init__(self, seq):
        super().__init__(0.0)
        self.seq = list(seq)
        self.k = 0

    def get_latency(self, current_time):
        s = self.seq[self.k] if self.k < len(self.seq) else self.seq[-1]
        self.k += 1
        return Duration.from_seconds(int(s))


# ---------------------------------------------------------------------------
# pipelines.  Each exposes the PUBLIC view of the component:
#   snap() -> dict(waiting, in_service, rejected, accepted, completed, discarded, limit)  (None = not exposed)
#   free_for(tag) -> bool   worker has free capacity for that waiting item
# ---------------------------------------------------------------------------
class Pipe:
    tapped = True  # pushes / pops seen per tag
    own_worker = True  # starts / finishes seen per tag
    expect_all_done = True  # at quiescence every accepted item must have completed
    stage_index, is_last, next_obs = 0, True, None
    eval_t = 0  # the instant whose settled state check_boundary is judging

    def __init__(self, cfg, obs, sink):
        self.cfg, self.obs, self.sink = cfg, obs, sink
        self.entities = []
        self.comp = None

    def make_extra_events(self):
        """Control events of the pipeline (limit changes, gate schedule).  Built only AFTER the
        Simulation exists: events created earlier would carry creation indices of the previous
        simulation in this process, i.e. an unowned tie-break against same-instant arrivals."""
        return []

    def free_for(self, tag):
        raise NotImplementedError

    def limit_now(self):
        return self.cfg.get("conc")

    def in_service_units(self, tags):
        return len(tags)


class PipeQDW(Pipe):
    label = "Queue+QueueDriver+worker"

    def __init__(self, cfg, obs, sink):
        super().__init__(cfg, obs, sink)
        obs.policy_kind = cfg["policy"]
        self.worker = Worker("worker", obs, cfg["conc"], sink)
        self.driver = QueueDriver(name="driver", queue=None, target=self.worker)
        self.queue = Queue(name="queue", egress=self.driver, policy=Tap(make_policy(cfg["policy"], cfg["cap"]), obs))
        self.driver.queue = self.queue
        self.entry = self.queue
        self.entities = [self.queue, self.driver, self.worker]

    def snap(self):
        q = self.queue
        return dict(waiting=q.depth, in_service=self.worker._in_flight, rejected=q.stats_dropped,
                    accepted=q.stats_accepted, completed=None, discarded=0, limit=self.cfg["conc"])

    def free_for(self, tag):
        return self.worker.has_capacity()


class PipeQR(Pipe):
    label = "QueuedResource(documented pattern)"

    def __init__(self, cfg, obs, sink):
        super().__init__(cfg, obs, sink)
        obs.policy_kind = cfg["policy"]
        self.res = DocServer("res", sink, cfg["conc"], Tap(make_policy(cfg["policy"], cfg["cap"]), obs), obs)
        self.entry = self.res
        self.entities = [self.res]

    def snap(self):
        r = self.res
        return dict(waiting=r.depth, in_service=r._in_flight, rejected=r.stats_dropped,
                    accepted=r.stats_accepted, completed=None, discarded=0, limit=self.cfg["conc"])

    def free_for(self, tag):
        return self.res.has_capacity()


class PipeBalking(PipeQR):
    label = "QueuedResource+BalkingQueue"

    def __init__(self, cfg, obs, sink):
        Pipe.__init__(self, cfg, obs, sink)
        obs.policy_kind = "FIFO"
        self.balk = BalkingQueue(make_policy("FIFO", cfg["cap"]), balk_threshold=cfg["thr"], balk_probability=0.5)
        self.res = DocServer("res", sink, cfg["conc"], Tap(self.balk, obs, scripted=True), obs)
        self.entry = self.res
        self.entities = [self.res]


class PipeReneging(Pipe):
    label = "RenegingQueuedResource"

    def __init__(self, cfg, obs, sink):
        super().__init__(cfg, obs, sink)
        obs.policy_kind = "FIFO"
        self.renege_sink = Sink("reneged", obs.on_other)
        self.res = DocReneging("res", sink, self.renege_sink, float(cfg["patience"]), cfg["conc"],
                               Tap(make_policy("FIFO", cfg["cap"]), obs), obs)
        self.entry = self.res
        self.entities = [self.res, self.renege_sink]
        _ensure_policy_used(self.res, obs)

    def snap(self):
        r = self.res
        return dict(waiting=r.depth, in_service=r._in_flight, rejected=r.stats_dropped, accepted=r.stats_accepted,
                    completed=None, discarded=0, limit=self.cfg["conc"], reneged=r.reneged, served=r.served)

    def free_for(self, tag):
        return self.res.has_capacity()


class PipeServer(Pipe):
    own_worker = False

    def __init__(self, cfg, obs, sink):
        super().__init__(cfg, obs, sink)
        obs.policy_kind = cfg["policy"]
        m = cfg["model"]
        conc = cfg["conc"]
        self.knob = None
        self.tap = None
        if m == "int":
            model = conc
        elif m == "fixed":
            model = FixedConcurrency(conc)
        elif m == "dynamic":
            model = DynamicConcurrency(initial=conc, min_limit=1, max_limit=3)
        elif m == "weighted":
            model = WeightedConcurrency(conc)
        else:
            raise AssertionError(m)
        self.label = f"Server[{m}]"
        self.svc = SvcSeq(cfg["svc_seq"])
        kw = {}
        if cfg.get("native_cap"):
            self.tapped = False
            kw["queue_capacity"] = cfg["cap"]
        else:
            self.tap = Tap(make_policy(cfg["policy"], cfg["cap"], obs), obs)
            kw["queue_policy"] = self.tap
        self.server = Server("server", concurrency=model, service_time=self.svc, downstream=sink, **kw)
        self.entry = self.server
        self.entities = [self.server]
        if m == "dynamic" and cfg.get("knob"):
            def set_limit(arg):
                # arg: int -> set_limit(arg); ["up", n] -> scale_up(n); ["down", n] -> scale_down(n)
                before = self.server.concurrency
                model = self.server.concurrency_model
                if isinstance(arg, (list, tuple)):
                    (model.scale_up if arg[0] == "up" else model.scale_down)(arg[1])
                else:
                    model.set_limit(arg)
                if self.server.concurrency < before:
                    obs.lowered.add(obs.now())

            self.knob = Knob("knob", set_limit, obs)
            self.entities.append(self.knob)
            # the limit change travels through 0..3 zero-delay forwarders too, so it can land between
            # the queue's dequeue and the worker's receipt of a request on the same instant
            self.knob_entry = self.knob
            for j in range(cfg.get("knob_hops", 0)):
                self.knob_entry = Fwd(f"knobfwd{j}", self.knob_entry)
                self.entities.append(self.knob_entry)

    def make_extra_events(self):
        if self.knob is None:
            return []
        return [Event(time=Instant.from_seconds(t), event_type="SetLimit", target=self.knob_entry,
                      context={"metadata": {"arg": lim}}) for (t, lim) in self.cfg["knob"]]

    def snap(self):
        s = self.server
        st = s.stats
        d = dict(waiting=s.depth, in_service=s.active_requests, rejected=s.stats_dropped,
                 accepted=s.stats_accepted, completed=st.requests_completed, discarded=st.requests_rejected,
                 limit=s.concurrency)
        if self.tapped and self.tap.policy_drops() is not None:
            d["policy_drops"] = self.tap.policy_drops()
        return d

    def limit_now(self):
        return self.server.concurrency

    def free_for(self, tag):
        w = self.obs.meta[tag].get("weight", 1) if tag is not None else 1
        return self.server.has_capacity(w) if self.cfg["model"] == "weighted" else self.server.has_capacity()

    def in_service_units(self, tags):
        if self.cfg["model"] == "weighted":
            return sum(self.obs.meta[g].get("weight", 1) for g in tags)
        return len(tags)


class PipeShifted(Pipe):
    label = "ShiftedServer"
    own_worker = False

    def __init__(self, cfg, obs, sink):
        super().__init__(cfg, obs, sink)
        obs.policy_kind = "FIFO"
        caps = cfg["caps"]
        self.schedule = ShiftSchedule([Shift(float(i), float(i + 1), c) for i, c in enumerate(caps)],
                                      default_capacity=cfg["default"])
        self.server = ShiftedServer("shifted", self.schedule, service_time=float(cfg["svc"]), downstream=sink,
                                    policy=Tap(make_policy("FIFO", cfg["cap"]), obs))
        self.entry = self.server
        self.entities = [self.server]
        _ensure_policy_used(self.server, obs)
        prev = caps[0]
        for i, c in enumerate(list(caps[1:]) + [cfg["default"]], start=1):
            if c != prev:
                obs.changes.add(i)
            prev = c
        self.expect_all_done = cfg["default"] > 0

        def started(tag, t):
            ins = len(obs.popped) - self.server.processed
            if ins > self.cap_at(t):
                obs.v("in-service-exceeds-limit",
                      f"at t={t} tag {tag} is released for service: {ins} items in service, the schedule allows "
                      f"{self.cap_at(t)} (current_capacity={self.server.current_capacity})", t)

        obs.pop_hook = started

    def cap_at(self, t):
        return self.schedule.capacity_at(float(t))

    def snap(self):
        s = self.server
        return dict(waiting=s.depth, in_service=None, rejected=s.stats_dropped, accepted=s.stats_accepted,
                    completed=s.processed, discarded=0, limit=None)

    def limit_now(self):
        return self.cap_at(self.eval_t)

    def free_for(self, tag):
        # the schedule is the documented capacity (evaluated at the instant whose settled state is being
        # judged); in service = released by the queue and not yet processed
        return (len(self.obs.popped) - self.server.processed) < self.cap_at(self.eval_t)


# -- entity pipelines with an internal buffer (no QueuePolicy seam): observed through
# -- control.on_event deliveries to the component + public counter deltas
class EntityPipe(Pipe):
    tapped = False
    own_worker = False


class PipePooled(EntityPipe):
    label = "PooledCycleResource"

    def __init__(self, cfg, obs, sink):
        super().__init__(cfg, obs, sink)
        self.comp = PooledCycleResource("pool", pool_size=cfg["conc"], cycle_time=float(cfg["svc"]), downstream=sink,
                                        queue_capacity=cfg["cap"] or 0)
        self.entry = self.comp
        self.entities = [self.comp]

    def snap(self):
        c = self.comp
        return dict(waiting=c.queued, in_service=c.active, rejected=c.rejected, accepted=None,
                    completed=c.completed, discarded=0, limit=c.pool_size)

    def free_for(self, tag):
        return self.comp.available > 0


class PipeConveyor(EntityPipe):
    label = "ConveyorBelt"

    def __init__(self, cfg, obs, sink):
        super().__init__(cfg, obs, sink)
        self.comp = ConveyorBelt("belt", sink, transit_time=float(cfg["svc"]), capacity=cfg["conc"] or 0)
        self.entry = self.comp
        self.entities = [self.comp]

    def snap(self):
        c = self.comp
        return dict(waiting=0, in_service=c.items_in_transit, rejected=c.items_rejected, accepted=None,
                    completed=c.items_transported, discarded=0, limit=(self.cfg["conc"] or None))

    def free_for(self, tag):
        return self.comp.has_capacity()


class PipeGate(EntityPipe):
    label = "GateController"
    expect_all_done = False  # items may legitimately still wait behind a closed gate

    def __init__(self, cfg, obs, sink):
        super().__init__(cfg, obs, sink)
        self.comp = GateController("gate", sink, schedule=[(float(a), float(b)) for a, b in cfg["schedule"]],
                                   initially_open=cfg["open0"], queue_capacity=cfg["cap"] or 0)
        self.entry = self.comp
        self.entities = [self.comp]
        for a, b in cfg["schedule"]:
            obs.changes.add(a)
            obs.changes.add(b)

    def make_extra_events(self):
        return self.comp.start_events()

    def snap(self):
        c = self.comp
        st = c.stats
        return dict(waiting=c.queue_depth, in_service=0, rejected=st.rejected, accepted=None,
                    completed=st.passed_through, discarded=0, limit=None)

    def free_for(self, tag):
        return self.comp.is_open


class PipeBatch(EntityPipe):
    label = "BatchProcessor"
    expect_all_done = False

    def __init__(self, cfg, obs, sink):
        super().__init__(cfg, obs, sink)
        self.comp = BatchProcessor("batch", sink, batch_size=cfg["batch"], process_time=float(cfg["svc"]),
                                   timeout_s=float(cfg["timeout"]))
        self.entry = self.comp
        self.entities = [self.comp]

    def snap(self):
        c = self.comp
        return dict(waiting=c.buffer_depth, in_service=None, rejected=0, accepted=None,
                    completed=c.items_processed, discarded=0, limit=None)

    def free_for(self, tag):
        # a buffered item is only "held back although it could go" when a full batch is waiting
        return self.comp.buffer_depth >= self.cfg["batch"]


KINDS = {
    "QDW": PipeQDW, "QR": PipeQR, "Balking": PipeBalking, "Reneging": PipeReneging, "Server": PipeServer,
    "Shifted": PipeShifted, "Pooled": PipePooled, "Conveyor": PipeConveyor, "Gate": PipeGate, "Batch": PipeBatch,
}


# ---------------------------------------------------------------------------
# one execution
# ---------------------------------------------------------------------------
class Exec:
    def __init__(self, kind, cfg, arrivals):
        self.kind, self.cfg, self.arrivals = kind, cfg, arrivals
        self.obs = []
        self.pipes = []
        self.viol = []
        self.events = 0
        self.outcome = None


def build(kind, cfg, arrivals):
    """arrivals: tuple of (t, hops, svc, prio, weight, r) per request; tag = index."""
    stages = cfg.get("stages", 1)
    cfg = dict(cfg, svc_seq=[a[2] for a in arrivals])
    sink_obs = Obs(f"s{stages - 1}")
    sink = Sink("sink", sink_obs.on_sink)
    ents = [sink]
    pipes, obs_list = [], []
    downstream = sink
    for si in reversed(range(stages)):
        obs = sink_obs if si == stages - 1 else Obs(f"s{si}")
        obs.clock = sink
        p = KINDS[kind](cfg, obs, downstream)
        p.stage_index, p.is_last = si, (si == stages - 1)
        if pipes:
            pipes[0].obs.upstream = obs  # the next stage's push is this stage's completion
            p.next_obs = pipes[0].obs
        else:
            p.next_obs = None
        pipes.insert(0, p)
        obs_list.insert(0, obs)
        ents += p.entities
        downstream = p.entry
    first = pipes[0]
    chains = {0: first.entry}
    for h in sorted({a[1] for a in arrivals} - {0}):
        tgt = first.entry
        for j in range(h):
            f = Fwd(f"fwd{h}.{j}", tgt)
            ents.append(f)
            tgt = f
        chains[h] = tgt
    keep = Sink("keepalive", lambda tag: None)
    ents.append(keep)
    sim = Simulation(entities=ents)
    # creation order = tie-break on one instant: control events (limit change, gate open/close) are
    # created before the arrivals (ctl_first, default) or after them - both orders are enumerated
    ctl_first = cfg.get("ctl_first", True)
    events = []
    if ctl_first:
        for p in pipes:
            events += p.make_extra_events()
    for tag, (t, hops, svc, prio, weight, r) in enumerate(arrivals):
        md = {"tag": tag, "svc": svc, "prio": prio, "weight": weight, "r": r}
        events.append(Event(time=Instant.from_seconds(int(t)), event_type="Req", target=chains[hops],
                            context={"metadata": md}))
        first.obs.arr_times[tag] = t
        for o in obs_list:
            o.meta.setdefault(tag, md)
    if not ctl_first:
        for p in pipes:
            events += p.make_extra_events()
    events.append(Event(time=Instant.from_seconds(HORIZON_T), event_type="KeepAlive", target=keep))
    sim.schedule(events)
    return sim, pipes, obs_list


def execute(kind, cfg, arrivals, verbose=False):
    saved = _random.random
    _random.random = _scripted_random
    try:
        return _execute(kind, cfg, arrivals, verbose)
    finally:
        _random.random = saved


def _execute(kind, cfg, arrivals, verbose):
    ex = Exec(kind, cfg, arrivals)
    sim, pipes, obs_list = build(kind, cfg, arrivals)
    ex.obs, ex.pipes = obs_list, pipes
    ctl = sim.control
    state = {"prev": {id(p): p.snap() for p in pipes}, "t": 0}
    ent_seen = {}

    def per_delivery(ev):
        if type(ev.target) is Fwd:
            return
        for p in pipes:
            s = p.snap()
            o = p.obs
            prev = state["prev"][id(p)]
            ins, lim = s["in_service"], s["limit"]
            # a start (in-service count went up) must stay within the limit in force
            if ins is not None and lim is not None and ins > lim and ins > (prev["in_service"] or 0):
                o.v("in-service-exceeds-limit", f"at t={o.now()} {ins} items are in service, the limit is {lim}")
            if isinstance(p, EntityPipe) and ev.target is p.comp and not isinstance(ev, ProcessContinuation):
                tag = _tag(ev)
                if tag is not None:
                    _classify_entity_delivery(p, o, tag, prev, s, ent_seen)
            state["prev"][id(p)] = s
        if verbose:
            tname = getattr(ev.target, "name", "?")
            cont = " (process resumes)" if isinstance(ev, ProcessContinuation) else ""
            print(f"    t={ev.time.nanoseconds // SEC} deliver {ev.event_type:<14} -> {tname:<12} tag={_tag(ev)}{cont}  "
                  + " | ".join(f"{p.obs.name}: " + _fmt(p.snap()) for p in pipes))

    def boundary(new_time):
        t_prev = state["t"]
        for p in pipes:
            check_boundary(p, t_prev, final=False)
        state["t"] = new_time.nanoseconds // SEC
        if verbose:
            print(f"  -- clock advances {t_prev} -> {state['t']}")

    ctl.on_time_advance(boundary)
    res = run_guarded(sim, max_events=MAX_EVENTS, storm=STORM, on_event=per_delivery)
    ex.events = res["events"]
    ex.outcome = res["outcome"]
    if res["outcome"] != "done":
        pipes[0].obs.viol.append(("livelock", "frozen-clock" if res["outcome"] == "storm" else "horizon",
                                  f"run did not finish: {res['outcome']} after {res['events']} deliveries "
                                  f"(last t={res['last_ns']} ns)"))
    else:
        for p in pipes:
            check_boundary(p, state["t"], final=True)
    seen = set()
    for p in pipes:
        for (clause, shape, desc) in p.obs.viol:
            fp = f"{p.label}/{clause}/{shape}"
            if fp not in seen:  # first witness per fingerprint and execution
                seen.add(fp)
                ex.viol.append((fp, desc))
    return ex


def _fmt(s):
    return " ".join(f"{k}={v}" for k, v in s.items() if v is not None)


def _classify_entity_delivery(p, o, tag, prev, s, seen):
    """A tagged event was delivered to an entity pipeline: decide from public counter deltas what
    the component did with it (started / queued / rejected / passed on)."""
    n = seen.get((id(p), tag), 0)
    seen[(id(p), tag)] = n + 1
    t = o.now()
    d_rej = (s["rejected"] or 0) - (prev["rejected"] or 0)
    d_wait = (s["waiting"] or 0) - (prev["waiting"] or 0)
    if n == 0:
        o.pushed[tag] = (t, d_rej == 0)
        o.push_order.append(tag)
        if d_rej == 0 and d_wait > 0:
            o.waiting.append(tag)
            o.ever_waited.append(tag)
        elif d_rej == 0:
            o.popped[tag] = t  # straight into service / passed on
    else:
        # PooledCycleResource hands a dequeued item back to itself as a fresh event
        if tag in o.waiting:
            o.waiting.remove(tag)
        if d_rej > 0:
            o.v("accepted-item-discarded",
                f"tag {tag} was accepted at t={o.pushed[tag][0]} and queued; when a unit became free at t={t} it "
                f"was handed back to the component and rejected (rejected counter +{d_rej})",
                shape="handed-back-item-rejected")
            o.other.setdefault(tag, []).append(t)
        elif d_wait > 0:
            o.waiting.append(tag)  # sent back to the tail of the queue
        else:
            o.popped[tag] = t


def check_boundary(p, t_prev, final):
    """Settled state of instant ``t_prev``: called when the clock is about to advance, and at the end."""
    o = p.obs
    p.eval_t = t_prev
    s = p.snap()
    when = f"end of t={t_prev}" + (" (quiescence)" if final else "")
    tail = "nothing is scheduled any more" if final else "simulated time passes"
    if p.stage_index == 0:
        offered = [g for g, a in o.arr_times.items() if a <= t_prev]
        for g in offered:
            if g not in o.pushed and (p.tapped or isinstance(p, EntityPipe)):
                o.v("not-exactly-one-state", f"{when}: tag {g} (arrival t={o.arr_times[g]}) never reached the "
                                             f"component", t_prev)
    else:
        offered = list(o.pushed)
    rejected = [g for g, (_t, acc) in o.pushed.items() if not acc]
    accepted = [g for g, (_t, acc) in o.pushed.items() if acc]
    waiting = list(o.waiting)
    n_sunk = len(o.sunk)

    if p.tapped:
        if p.own_worker:
            in_service = [g for g in o.started if len(o.finished.get(g, ())) < len(o.started[g])]
        else:
            in_service = [g for g in o.popped if g not in o.sunk]
        for g in accepted:
            if not p.own_worker:
                break
            states = []
            if g in waiting:
                states.append("waiting")
            if g in in_service:
                states.append("in service")
            if g in o.finished:
                states.append("completed")
            if g in o.other:
                states.append("reneged")
            if len(states) == 1:
                if g in o.finished and g not in o.sunk:
                    o.v("not-exactly-one-state", f"{when}: tag {g} finished service at t={o.finished[g]} but its "
                                                 f"completion never arrived downstream", t_prev)
                continue
            if not states:
                o.v("not-exactly-one-state", f"{when}: tag {g} left the queue at t={o.popped.get(g)} but is "
                                             f"neither in service nor completed", t_prev)
            else:
                o.v("not-exactly-one-state", f"{when}: tag {g} is in states {states}", t_prev)
        # public counters against the per-tag view ("rejected-and-counted", "waiting")
        if s["waiting"] != len(waiting):
            o.v("counters", f"{when}: depth={s['waiting']} but {len(waiting)} accepted items have not left the "
                            f"queue ({waiting})", t_prev)
        if s["rejected"] != len(rejected):
            o.v("counters", f"{when}: {len(rejected)} offers were rejected ({rejected}) but the drop counter "
                            f"says {s['rejected']}", t_prev)
        if s["accepted"] is not None and s["accepted"] != len(accepted):
            o.v("counters", f"{when}: {len(accepted)} offers were accepted but stats_accepted={s['accepted']}", t_prev)
        if "reneged" in s and s["reneged"] != len(o.other):
            o.v("counters", f"{when}: reneged counter={s['reneged']} but {len(o.other)} items reached the "
                            f"reneged target", t_prev)
        if "policy_drops" in s and s["policy_drops"] != len(o.other):
            o.v("counters", f"{when}: the queue policy counts {s['policy_drops']} expired/dropped items but "
                            f"{len(o.other)} accepted items left the queue that way ({sorted(o.other)})", t_prev)
        if not p.own_worker:
            ghost = [g for g in o.sunk if g not in o.popped]
            if ghost:
                o.v("not-exactly-one-state", f"{when}: tag(s) {ghost} completed downstream although the queue never "
                                             f"released them (still waiting: {waiting})", t_prev)
            if s["in_service"] is not None and p.cfg.get("model") != "weighted":
                real = len(in_service) - (s["discarded"] or 0)
                if real != s["in_service"]:
                    o.v("not-exactly-one-state",
                        f"{when}: {len(in_service)} requests were released by the queue and have not completed, "
                        f"{s['discarded']} of them counted as rejected: {real} are in service, but the server "
                        f"reports {s['in_service']} (limit {s['limit']})", t_prev)
        if s["discarded"]:
            if not o.discard_reported:
                o.discard_reported = True
                lost = [g for g in o.popped if g not in o.sunk]
                heavy = [g for g in lost if o.meta[g].get("weight", 1) > 1] if p.cfg.get("model") == "weighted" else []
                o.v("accepted-item-discarded",
                    f"{when}: the server counts {s['discarded']} request(s) rejected AFTER its queue had accepted "
                    f"and released them (released and not completed: {lost}; in service: {s['in_service']}"
                    + (f"; weights {[o.meta[g].get('weight', 1) for g in lost]}" if heavy else "") + ")", t_prev,
                    shape=("item-heavier-than-one-unit" if heavy else
                           "limit-lowered-on-dispatch-instant" if t_prev in o.lowered else None))
        elif not p.own_worker and s["in_service"] is not None:
            units = p.in_service_units(in_service)
            if units != s["in_service"]:
                o.v("not-exactly-one-state",
                    f"{when}: {in_service} left the queue and have not completed ({units} capacity units) but "
                    f"the server reports {s['in_service']} in service", t_prev)
        if waiting:
            head = o.expected_next()
            if head and p.free_for(head[0]):
                o.v("stranded", f"{when}: {waiting} wait(s) although the worker has free capacity for "
                                f"{head[0]} (in service: {in_service}, limit {p.limit_now()}); {tail}", t_prev)
            elif final and p.expect_all_done:
                o.v("stranded", f"{when}: {waiting} still wait(s) and {tail}", t_prev)
        if final and s["completed"] is not None and s["completed"] != n_sunk:
            o.v("counters", f"{when}: completed counter={s['completed']} but {n_sunk} completions arrived "
                            f"downstream", t_prev)
        if not p.is_last and p.own_worker:
            for g in o.finished:
                if g not in p.next_obs.pushed:
                    o.v("not-exactly-one-state", f"{when}: tag {g} finished stage {p.stage_index} at "
                                                 f"t={o.finished[g]} but never reached the next stage", t_prev)
        return

    # ---- count view (entity pipelines, server with its own queue_capacity) ----
    n_off = len(offered)
    if s["in_service"] is not None:
        tot = (s["rejected"] or 0) + (s["waiting"] or 0) + s["in_service"] + n_sunk + (s["discarded"] or 0)
        if tot != n_off:
            o.v("not-exactly-one-state",
                f"{when}: {n_off} requests offered, but rejected={s['rejected']} + waiting={s['waiting']} + "
                f"in service={s['in_service']} + completed downstream={n_sunk} = {tot}", t_prev)
    if s["discarded"] and not o.discard_reported:
        o.discard_reported = True
        o.v("accepted-item-discarded", f"{when}: the server counts {s['discarded']} request(s) rejected AFTER its "
                                       f"queue had accepted them", t_prev)
    if isinstance(p, PipeBatch):
        if p.cfg["timeout"] > 0:
            # documented contract: flushed when the batch is full or timeout_s after the first item of the
            # batch arrived, then process_time in service -> an item offered at a is downstream by
            # a + timeout + process_time; later than that it has waited (or sat unserved) with capacity free
            bound = p.cfg["timeout"] + p.cfg["svc"]
            late = [g for g in offered if g not in o.sunk and o.arr_times.get(g, 0) + bound <= t_prev]
            if late:
                o.v("stranded", f"{when}: tag(s) {late} offered at t={[o.arr_times[g] for g in late]} are still not "
                                f"downstream although timeout {p.cfg['timeout']} + process time {p.cfg['svc']} "
                                f"elapsed (buffered: {s['waiting']}); {tail}", t_prev)
        if final:
            if s["completed"] != n_sunk:
                o.v("counters", f"{when}: items_processed={s['completed']} but {n_sunk} items arrived downstream",
                    t_prev)
            if s["waiting"] + s["completed"] != n_off:
                o.v("not-exactly-one-state", f"{when}: {n_off} offered but buffered={s['waiting']} + "
                                             f"processed={s['completed']}", t_prev)
            if p.cfg["timeout"] > 0 and s["waiting"]:
                o.v("stranded", f"{when}: {s['waiting']} item(s) still buffered although the batch timeout "
                                f"({p.cfg['timeout']} s) elapsed long ago", t_prev)
    elif s["completed"] is not None and s["completed"] != n_sunk:
        o.v("counters", f"{when}: completed counter={s['completed']} but {n_sunk} completions arrived downstream",
            t_prev)
    if (s["waiting"] or 0) > 0:
        if p.free_for(None):
            o.v("stranded", f"{when}: {s['waiting']} item(s) wait although the worker has free capacity "
                            f"(in service {s['in_service']}, limit {s['limit']}); {tail}", t_prev)
        elif final and p.expect_all_done:
            o.v("stranded", f"{when}: {s['waiting']} item(s) still wait and {tail}", t_prev)
    if final and isinstance(p, EntityPipe) and not isinstance(p, PipeBatch):
        # one constant service time: items that had to queue complete in queue order (FIFO buffer)
        order = list(o.ever_waited)
        pos = {g: i for i, g in enumerate(o.sunk_seq)}
        bad = [(a, b) for i, a in enumerate(order) for b in order[i + 1:]
               if b in pos and (a not in pos or pos[b] < pos[a]) and a not in o.other]
        if bad:
            a, b = bad[0]
            o.v("order", f"tag {b} queued behind tag {a} yet completed first (completions arrived downstream in "
                         f"the order {o.sunk_seq}, at t={[o.sunk[g][0] for g in o.sunk_seq]})", o.sunk[b][0],
                shape="queued-item-overtaken")


# ---------------------------------------------------------------------------
# enumeration
# ---------------------------------------------------------------------------
def arrival_multisets(n, times, hops):
    slots = [(t, h) for t in times for h in hops]
    return list(itertools.combinations_with_replacement(slots, n))


def patterns(n_max, times, hops, svcs, prios=(0,), weights=(1,), rs=(0.999999,), n_min=1):
    """All arrival patterns with n_min..n_max requests: multiset of (time, hops) slots x every assignment of
    per-request attributes.  Tags are numbered in slot order; identical slots are symmetric because all
    attribute assignments are enumerated."""
    attrs = list(itertools.product(svcs, prios, weights, rs))
    for n in range(n_min, n_max + 1):
        for ms in arrival_multisets(n, times, hops):
            for at in itertools.product(attrs, repeat=n):
                yield tuple((t, h) + a for (t, h), a in zip(ms, at))


def _nontrivial(ex):
    for o in ex.obs:
        arr = [t for (t, _a) in o.pushed.values()] or list(o.arr_times.values())
        fin = [v[0] for v in (o.finished or o.sunk).values()]
        ts = arr + fin
        if len(ts) != len(set(ts)):
            return True
        if any(not a for (_t, a) in o.pushed.values()):
            return True
        if any(o.popped.get(g, t) != t for g, (t, _a) in o.pushed.items()):
            return True
    return False


def work(job):
    kind, cfg, pats = job
    st = {"exec": 0, "trans": 0, "nontriv": 0, "outcomes": set(), "viol": {}, "counts": {}, "samples": []}
    for arr in pats:
        ex = execute(kind, cfg, arr)
        st["exec"] += 1
        st["trans"] += ex.events
        st["outcomes"].add(digest(tuple(o.trace() for o in ex.obs)))
        if _nontrivial(ex):
            st["nontriv"] += 1
        for fp, desc in ex.viol:
            st["counts"][fp] = st["counts"].get(fp, 0) + 1
            cur = st["viol"].get(fp)
            if cur is None or len(arr) < len(cur[1]["arrivals"]):
                st["viol"][fp] = (desc, {"driver": "pipe", "kind": kind, "cfg": cfg,
                                         "arrivals": [list(a) for a in arr]})
        if not st["samples"] and st["exec"] % 211 == 5:
            st["samples"].append({"kind": kind, "cfg": cfg, "arrivals": [list(a) for a in arr],
                                  "trace": [list(map(str, o.trace())) for o in ex.obs]})
    return kind, cfg, st


def chunked(seq, n):
    seq = list(seq)
    k = max(1, (len(seq) + n - 1) // n)
    return [seq[i:i + k] for i in range(0, len(seq), k)]


def run_pipes(run, tier, seed, only):
    from props.c08_space import families
    t_all = time.time()
    jobs = []
    fam_of = {}
    for fam in families(tier):
        name = f"pipe-{fam['name']}"
        if only and name not in only and "pipe" not in only:
            continue
        d = run.driver(name, fam["bounds"])
        pats = list(fam["patterns"])
        for cfg in fam["cfgs"]:
            for ch in chunked(pats, fam.get("chunks", 4)):
                jobs.append((fam["kind"], cfg, ch))
                fam_of[len(jobs) - 1] = name
    if not jobs:
        return
    order = rotate(list(range(len(jobs))), seed)
    results = pmap(_work_indexed, [(i, jobs[i]) for i in order])
    agg = {}
    for i, (kind, cfg, st) in results:
        name = fam_of[i]
        a = agg.setdefault(name, {"exec": 0, "trans": 0, "nontriv": 0, "outcomes": set(), "samples": [],
                                  "counts": {}, "cpu": 0.0})
        a["exec"] += st["exec"]
        a["trans"] += st["trans"]
        a["nontriv"] += st["nontriv"]
        a["outcomes"] |= st["outcomes"]
        a["samples"] += st["samples"]
        a["cpu"] += st.get("cpu", 0.0)
        for fp, n in st["counts"].items():
            a["counts"][fp] = a["counts"].get(fp, 0) + n
        for fp, (desc, rep) in st["viol"].items():
            cur = run.violations.get(fp)
            if cur is not None and len(rep["arrivals"]) < len(cur[1].get("arrivals", rep["arrivals"])):
                run.violations[fp] = (desc, rep)
            run.violation(fp, desc, rep)
    wall = time.time() - t_all
    tot = sum(a["exec"] for a in agg.values()) or 1
    for name, a in agg.items():
        d = run.driver(name)
        d.executions = a["exec"]
        d.transitions = a["trans"]
        d.nontrivial = a["nontriv"]
        d.outcomes = len(a["outcomes"])
        d.states = len(a["outcomes"])
        d.samples = a["samples"][:2]
        d.extra["violating_executions_by_fingerprint"] = dict(sorted(a["counts"].items()))
        d.extra["cpu_s"] = round(a["cpu"], 2)
        d.wall_s = wall * a["exec"] / tot


def _work_indexed(x):
    i, job = x
    t0 = time.process_time()
    kind, cfg, st = work(job)
    st["cpu"] = time.process_time() - t0
    return i, (kind, cfg, st)


def replay(rep):
    kind, cfg = rep["kind"], rep["cfg"]
    arr = tuple(tuple(a) for a in rep["arrivals"])
    print(f"pipeline {kind} cfg={cfg}")
    for tag, a in enumerate(arr):
        print(f"  request tag={tag}: arrives t={a[0]} through {a[1]} forwarder(s), service={a[2]} prio={a[3]} "
              f"weight={a[4]} random={a[5]}")
    ex = execute(kind, cfg, arr, verbose=True)
    for o in ex.obs:
        print(f"  stage {o.name}: per tag (tag, (offered t, accepted), dequeued t, started, finished, completed, other)")
        for row in o.trace():
            print(f"    {row}")
    for fp, d in ex.viol:
        print(f"  !! {fp}: {d}")
    return ex.viol

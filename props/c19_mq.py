"""C19 helpers: MessageQueue (+DeadLetterQueue) and Topic op-sequence drivers.

Everything runs inside a real ``Simulation``: a harness script entity issues one
operation per tick (1 tick = 1 s, exact in integer nanoseconds), consumer
recorder entities log what they actually receive, and the oracle is evaluated
at every tick boundary (= after the previous operation and everything it
triggered has quiesced: delivery latency 0 / 0.25 s and redelivery delay 1.5 s
never land on a tick) from the consumers' logs plus the public API
(``stats``, ``pending_count``, ``in_flight_count``, ``get_message``,
``DeadLetterQueue.messages``).

Operation sequences are enumerated with the E2 explorer (``mc.choice.explore``):
at every tick the script asks the chooser which *applicable* operation to issue
next, so the explorer walks every sequence of the dynamic alphabet exactly once.
"""
from __future__ import annotations

import contextlib
import uuid

from mc.choice import Chooser, explore
from mc.evidence import digest
from mc.harness import Entity, Event, Instant, Simulation, run_guarded

TICK = 1_000_000_000
RD_S = 1.5  # redelivery delay (s): fires half-way between two ticks
RD_NS = 1_500_000_000


@contextlib.contextmanager
def pinned_uuid():
    """uuid.uuid4 is an environment answer the queue asks for: own it (deterministic ids)."""
    saved = uuid.uuid4
    box = [0]

    def fake():
        box[0] += 1
        return uuid.UUID(int=(0xC19 << 64) + box[0])

    uuid.uuid4 = fake
    try:
        yield
    finally:
        uuid.uuid4 = saved


def _lib():
    from happysimulator.components.messaging import DeadLetterQueue, MessageQueue, Topic
    return MessageQueue, DeadLetterQueue, Topic


class Forced(Chooser):
    """Chooser used by replays: never consulted (the whole sequence is forced)."""


# ---------------------------------------------------------------------------
# MessageQueue world
# ---------------------------------------------------------------------------
class Consumer(Entity):
    def __init__(self, name, w, auto_ack=False):
        super().__init__(name)
        self.w = w
        self.auto_ack = auto_ack

    def handle_event(self, event):
        w = self.w
        if event.event_type != "message_delivery":
            return None
        ctx = event.context
        payload = ctx.get("payload")
        tag = payload.context["metadata"]["tag"] if payload is not None else None
        mid = ctx.get("message_id")
        now = self.now.nanoseconds
        r = {"t": now, "c": self.name, "tag": tag, "mid": mid, "dc": ctx.get("delivery_count"),
             "et": event.time.nanoseconds}
        w.receipts.append(r)
        w.trace(f"t={now / TICK:g}s  consumer {self.name} RECEIVES message #{tag} (attempt {r['dc']})")
        if self.auto_ack:
            w.queue.acknowledge(mid)
            w.acked.setdefault(tag, now)
            w.trace(f"t={now / TICK:g}s  drain consumer acknowledges #{tag}")
        else:
            w.outstanding.append((tag, mid, self.name))
        return None


class MQScript(Entity):
    def __init__(self, w):
        super().__init__("script")
        self.w = w

    def handle_event(self, event):
        if event.event_type == "tick":
            return self._tick(event.context["metadata"]["i"])
        return None

    def _tick(self, i):
        w = self.w
        w.observe(i)
        if w.viol is not None:
            return None
        opts = w.applicable(i)
        if i < len(w.forced):
            op = w.forced[i]
            if op not in opts:
                w.aborted = True
                return None
        elif w.chooser is None or isinstance(w.chooser, Forced):
            op = "end"
        else:
            op = opts[w.chooser.choose(len(opts), tuple(opts))]
        if op == "end":
            w.trace(f"t={i}s  -- end of sequence; drain --")
            result = yield from self._drain()
            return result
        out = yield from w.apply(op, self, i)
        nxt = Event(time=Instant((i + 1) * TICK), event_type="tick", target=self,
                    context={"metadata": {"i": i + 1}})
        return list(out) + [nxt]

    def _drain(self):
        """Operational reading of 'never lost': with a willing consumer, time-outs and polls every
        message that is neither acknowledged nor dead-lettered can still be obtained."""
        w = self.w
        q = w.queue
        w.draining = True
        wait = 2.0
        if w.long:
            # deliveries still inside their latency window (and redeliveries about to fire) land first, so that
            # the drain's own unsubscribes never hit a delivery in flight
            wait = 4.0
            yield 3.0
        now = self.now.nanoseconds
        for c in w.consumers:
            q.unsubscribe(c)
        w.subscribed = {w.drain_consumer.name}
        q.subscribe(w.drain_consumer)
        w.sub_hist.append((now, frozenset(w.subscribed)))
        for _round in range(3):
            yield wait  # outstanding redelivery timers (1.5 s) fire
            evs = []
            for tag, mid in w.mids.items():
                m = q.get_message(mid)
                if m is not None and _state(m) == "delivered":
                    ev = q.schedule_redelivery(mid)
                    w.trace(f"t={self.now.nanoseconds / TICK:g}s  drain: timeout #{tag} -> "
                            f"{'redelivery scheduled' if ev is not None else 'no event'}")
                    if ev is not None:
                        w.note_redelivery(tag, ev, self.now.nanoseconds)
                        evs.append(ev)
            yield wait, evs
            for _ in range(len(w.mids) + 1):
                w.polls.append(self.now.nanoseconds)
                yield 1.0, [Event(time=self.now, event_type="poll", target=q)]
            if w.long:
                yield 2.0  # the last poll's delivery lands
            if all(w.settled(tag) for tag in w.mids):
                break
        w.final()
        return None


def _state(m):
    s = getattr(m, "state", None)
    return getattr(s, "value", str(s))


class MQWorld:
    """One closed MessageQueue system + the harness' ghost bookkeeping."""

    def __init__(self, cfg, chooser, forced=(), max_len=6, verbose=False):
        MessageQueue, DeadLetterQueue, _ = _lib()
        self.cfg = cfg
        self.chooser = chooser
        self.forced = list(forced)
        self.max_len = max_len
        self.verbose = verbose
        self.lines = []
        self.lat_s = cfg["lat"]
        self.lat_ns = int(round(cfg["lat"] * TICK))
        self.M = cfg["M"]
        self.max_pub = cfg.get("max_pub", 3)
        self.dlq = DeadLetterQueue("dlq")
        self.queue = MessageQueue("q", delivery_latency=self.lat_s, redelivery_delay=RD_S,
                                  max_redeliveries=self.M, dead_letter_queue=self.dlq)
        self.consumers = [Consumer(f"C{k}", self) for k in range(cfg["consumers"])]
        self.drain_consumer = Consumer("D", self, auto_ack=True)
        self.script = MQScript(self)
        self.queue.subscribe(self.consumers[0])
        self.subscribed = {"C0"}
        self.sub_hist = [(-1, frozenset(self.subscribed))]  # (time, subscribed set from that time on)
        # long mode: the delivery latency exceeds a tick, so operations land inside a delivery's latency window
        self.long = self.lat_ns >= TICK
        self.unsub_ops = 0
        # ghost state
        self.mids = {}  # tag -> message id (returned by publish)
        self.receipts = []
        self.outstanding = []  # deliveries a consumer holds and has not answered yet
        self.acked = {}  # tag -> time of the (first) acknowledge call
        self.ops = []
        self.aborted = False
        self.draining = False
        self.viol = None
        self.polls = []  # times at which a poll was issued
        self.redeliveries = []  # dicts: tag, fire, requested_at, checked
        self.lastop = None  # (label, tag, state_before, receipts_before, returned_event)
        self.seen_receipts = 0
        self.first_order = []
        self.flags = set()
        self.transitions = 0

    # -- util -----------------------------------------------------------
    def trace(self, s):
        if self.verbose:
            self.lines.append(s)
            print("  " + s)

    def in_dlq(self, tag):
        mid = self.mids.get(tag)
        return any(getattr(m, "id", None) == mid for m in self.dlq.messages)

    def settled(self, tag):
        return tag in self.acked or self.in_dlq(tag)

    def pub_state(self, tag):
        m = self.queue.get_message(self.mids[tag])
        if m is not None:
            return _state(m)
        if self.in_dlq(tag):
            return "dead-lettered"
        if tag in self.acked:
            return "acknowledged"
        return "gone"

    def nreceipts(self, tag):
        return sum(1 for r in self.receipts if r["tag"] == tag)

    def note_redelivery(self, tag, ev, now):
        self.redeliveries.append({"tag": tag, "fire": ev.time.nanoseconds, "at": now, "checked": False,
                                  "subs_at_fire": None})

    # -- alphabet -------------------------------------------------------
    def applicable(self, i):
        if i >= self.max_len:
            return ["end"]
        opts = []
        if len(self.mids) < self.max_pub:
            opts.append("pub")
        opts.append("poll")
        if self.outstanding:
            opts += ["ack", "rejq", "rejd"]
        if self.tmo_target() is not None:
            opts.append("tmo")
        for c in self.consumers:
            opts.append(("unsub" if c.name in self.subscribed else "sub") + c.name[1:])
        if i > 0:
            opts.append("end")
        return opts

    def tmo_target(self):
        for tag, mid in self.mids.items():
            m = self.queue.get_message(mid)
            if m is not None and _state(m) == "delivered":
                return tag
        return None

    def apply(self, op, script, i):
        """Generator (publish is one); returns the events the script must emit."""
        q = self.queue
        now = script.now.nanoseconds
        self.ops.append(op)
        self.transitions += 1
        out = []
        tag = None
        before = None
        rb = None
        ret = None
        if op == "pub":
            tag = len(self.mids)
            payload = Event(time=script.now, event_type="msg", target=self.consumers[0],
                            context={"metadata": {"tag": tag}})
            self.trace(f"t={i}s  op publish #{tag}")
            mid = yield from q.publish(payload)
            self.mids[tag] = mid
        elif op == "poll":
            self.trace(f"t={i}s  op poll   (pending={q.pending_count}, in flight={q.in_flight_count}, "
                       f"subscribed={sorted(self.subscribed)})")
            self.polls.append(now)
            out.append(Event(time=script.now, event_type="poll", target=q))
        elif op in ("ack", "rejq", "rejd"):
            tag, mid, cname = self.outstanding.pop(0)
            before = self.pub_state(tag)
            rb = self.nreceipts(tag)
            if before != "delivered":
                self.flags.add("late-" + op)
            self.trace(f"t={i}s  op {op} #{tag} by {cname}  (message is {before})")
            if op == "ack":
                q.acknowledge(mid)
                self.acked.setdefault(tag, now)
            else:
                q.reject(mid, requeue=(op == "rejq"))
        elif op == "tmo":
            tag = self.tmo_target()
            before = self.pub_state(tag)
            rb = self.nreceipts(tag)
            ret = q.schedule_redelivery(self.mids[tag])
            self.trace(f"t={i}s  op timeout #{tag} -> "
                       f"{'redelivery at ' + format(ret.time.nanoseconds / TICK, 'g') + 's' if ret is not None else 'no event'}")
            if ret is not None:
                self.note_redelivery(tag, ret, now)
                out.append(ret)
        elif op.startswith("sub") or op.startswith("unsub"):
            k = int(op[-1])
            c = self.consumers[k]
            self.trace(f"t={i}s  op {op[:-1]}scribe C{k}")
            if op.startswith("sub"):
                q.subscribe(c)
                self.subscribed.add(c.name)
            else:
                q.unsubscribe(c)
                self.subscribed.discard(c.name)
                self.unsub_ops += 1
            self.sub_hist.append((now, frozenset(self.subscribed)))
        else:
            raise AssertionError(op)
        self.lastop = (op, tag, before, rb, ret is not None)
        return out

    # -- oracle ---------------------------------------------------------
    def fail(self, fp, desc):
        if self.viol is None:
            self.viol = ("MessageQueue/" + fp, desc)
            self.trace("!! " + self.viol[0] + ": " + desc)

    def subs_at(self, t):
        cur = self.sub_hist[0][1]
        for (t0, ss) in self.sub_hist:
            if t0 <= t:
                cur = ss
        return cur

    def subs_changed(self, a, b):
        return any(a < t0 <= b for (t0, _ss) in self.sub_hist)

    def latclass(self):
        return "latency>0" if self.lat_ns else "latency=0"

    def observe(self, i):
        """State after operation i-1 (and everything it triggered) has quiesced."""
        if self.viol is not None:
            return
        q = self.queue
        st = q.stats
        now = i * TICK if i is not None else 10 ** 15
        lop = self.lastop[0] if self.lastop else "start"
        self.trace(f"     state: pending={q.pending_count} in_flight={q.in_flight_count} acked={st.messages_acknowledged} "
                   f"dead_lettered={st.messages_dead_lettered} published={st.messages_published} | "
                   + ", ".join(f"#{t}:{self.pub_state(t)}" for t in self.mids))
        # (A) accounted / never lost --------------------------------------------------
        for tag in self.mids:
            if self.pub_state(tag) == "gone":
                shape = f"after-{lop}" if self.lastop and self.lastop[1] == tag else "spontaneous"
                self.fail(f"lost/vanished/{shape}",
                          f"message #{tag} is neither pending, in flight, acknowledged nor dead-lettered "
                          f"after ops {self.ops}")
                return
        total = q.pending_count + q.in_flight_count + st.messages_acknowledged + st.messages_dead_lettered
        if st.messages_published != total:
            shape = lop
            if self.lastop and self.lastop[2] is not None:
                shape = f"{lop}-on-{self.lastop[2]}"
            self.fail(f"accounted/count-mismatch/{shape}",
                      f"published={st.messages_published} but pending({q.pending_count}) + in flight({q.in_flight_count}) "
                      f"+ acknowledged({st.messages_acknowledged}) + dead-lettered({st.messages_dead_lettered}) = {total} "
                      f"after ops {self.ops}")
            return
        # new receipts since the last boundary ---------------------------------------
        new = self.receipts[self.seen_receipts:]
        self.seen_receipts = len(self.receipts)
        self.transitions += len(new)
        fires = {r["fire"] for r in self.redeliveries}
        for r in new:
            trig = None
            if (r["t"] - self.lat_ns) in self.polls:
                trig = "poll"
            elif (r["t"] - self.lat_ns) in fires:
                trig = "redelivery"
            if trig is None:
                self.fail(f"delivery-instant/unexpected-time/{self.latclass()}",
                          f"consumer {r['c']} received #{r['tag']} at {r['t']}ns, which is not a poll or redelivery "
                          f"instant plus the delivery latency ({self.lat_ns}ns); ops {self.ops}")
                return
            # (B) ... reaches a *subscribed* consumer.  When the subscription changed inside the latency window the
            # statement does not say which instant counts: subscribed when selected OR on arrival is accepted.
            t_trig = r["t"] - self.lat_ns
            ok_subs = self.subs_at(t_trig) | self.subs_at(r["t"])
            if r["c"] not in ok_subs:
                self.fail(f"delivered-to-unsubscribed/{trig}",
                          f"{r['c']} received #{r['tag']} at {r['t']}ns, not subscribed when the delivery started "
                          f"({t_trig}ns) nor on arrival (subscribed: {sorted(ok_subs)}); ops {self.ops}")
                return
            # (E) nothing is delivered again after it was acknowledged (a delivery already inside its latency
            # window when the ack was issued is not counted as 'delivered again')
            if r["tag"] in self.acked and t_trig > self.acked[r["tag"]] - (0 if self.long else self.lat_ns):
                self.fail(f"delivered-after-ack/{trig}",
                          f"#{r['tag']} acknowledged at {self.acked[r['tag']]}ns was delivered again at {r['t']}ns "
                          f"to {r['c']}; ops {self.ops}")
                return
            # (C) first deliveries follow publish order
            if r["tag"] not in self.first_order:
                if self.first_order and r["tag"] < self.first_order[-1]:
                    self.fail("first-delivery-order/overtaken",
                              f"first delivery of #{r['tag']} came after first delivery of #{self.first_order[-1]}; "
                              f"ops {self.ops}")
                    return
                self.first_order.append(r["tag"])
            else:
                self.flags.add("redelivered")
        # (B) every delivery the queue performed reached a consumer -------------------
        performed = st.messages_delivered + st.messages_redelivered
        # long mode: only at the quiescent end of the drain, and only if no consumer unsubscribed during the
        # sequence (whether a delivery in its window must still reach a consumer that left is not settled)
        b1 = (not self.long) or (i is None and self.unsub_ops == 0)
        if b1 and len(self.receipts) < performed:
            trig = "poll" if lop == "poll" or self.draining else "redelivery"
            self.fail(f"delivery-not-received/{trig}/{self.latclass()}",
                      f"the queue performed {performed} deliveries (stats) and counts {q.in_flight_count} in flight, "
                      f"but consumers received {len(self.receipts)} delivery events; ops {self.ops}")
            return
        # (B) every requested redelivery (time-out) reaches a subscribed consumer ------
        if True:
            for rd in self.redeliveries:
                if rd["checked"] or rd["fire"] + self.lat_ns > now:
                    continue
                rd["checked"] = True
                tag = rd["tag"]
                rd["subs_at_fire"] = set(self.subs_at(rd["fire"]))
                if self.subs_changed(rd["fire"], rd["fire"] + self.lat_ns):
                    continue  # subscription changed inside the latency window: be silent
                got = any(r["tag"] == tag and rd["at"] < r["t"] <= rd["fire"] + self.lat_ns for r in self.receipts)
                acked_before = tag in self.acked and self.acked[tag] <= rd["fire"] + self.lat_ns
                if not got and not acked_before and not self.in_dlq(tag) and rd["subs_at_fire"]:
                    self.fail("redelivery-not-received/timeout",
                              f"redelivery of #{tag} requested at {rd['at']}ns for {rd['fire']}ns never reached a "
                              f"consumer although {sorted(rd['subs_at_fire'])} subscribed; ops {self.ops}")
                    return
        # (D) the redelivery limit moves a message to the DLQ -------------------------
        # (not in long mode: receipts lag the queue's own delivery count while a delivery is in its window)
        if not self.long and self.lastop and self.lastop[0] in ("rejq", "tmo") and self.lastop[2] == "delivered":
            op, tag, _before, rb, ret = self.lastop
            ignored = op == "tmo" and not ret and self.pub_state(tag) == "delivered"
            if not ignored:
                dl = self.in_dlq(tag)
                if dl:
                    self.flags.add("dead-lettered")
                if rb < self.M and dl:
                    self.fail(f"redelivery-limit/premature-dead-letter/{op}",
                              f"#{tag} was dead-lettered by {op} after {rb} deliveries with max_redeliveries={self.M}; "
                              f"ops {self.ops}")
                    return
                if rb >= self.M and not dl:
                    self.fail(f"redelivery-limit/not-dead-lettered/{op}",
                              f"#{tag} failed ({op}) after {rb} deliveries with max_redeliveries={self.M} but is "
                              f"{self.pub_state(tag)}, not dead-lettered; ops {self.ops}")
                    return

    def final(self):
        """End of the drain phase."""
        self.draining_done = True
        self.lastop = ("drain", None, None, None, False)
        self.observe(None)
        if self.viol is not None:
            return
        for tag in self.mids:
            if not self.settled(tag):
                stt = self.pub_state(tag)
                self.fail(f"lost/undeliverable/{stt}",
                          f"after the drain (willing consumer, time-outs, {len(self.mids) + 1} polls x3) message #{tag} "
                          f"is still {stt}: neither acknowledged nor dead-lettered nor obtainable; ops {self.ops}")
                return

    # -- run ------------------------------------------------------------
    def run(self):
        ents = [self.queue, self.dlq, self.script, self.drain_consumer] + self.consumers
        sim = Simulation(entities=ents)
        sim.schedule(Event(time=Instant(0), event_type="tick", target=self.script,
                           context={"metadata": {"i": 0}}))
        with pinned_uuid():
            res = run_guarded(sim, max_events=4000, storm=500)
        self.run_outcome = res["outcome"]
        if res["outcome"] != "done" and self.viol is None:
            self.fail(f"no-quiescence/{res['outcome']}", f"run did not finish: {res}; ops {self.ops}")
        return self

    def nontrivial(self):
        return bool(self.flags)

    def outcome(self):
        st = self.queue.stats
        return digest(([(r["t"], r["c"], r["tag"], r["dc"]) for r in self.receipts],
                       (st.messages_published, st.messages_delivered, st.messages_redelivered,
                        st.messages_acknowledged, st.messages_rejected, st.messages_dead_lettered),
                       sorted(self.acked.items()), [getattr(m, "id", None) for m in self.dlq.messages]))


# ---------------------------------------------------------------------------
# Topic world
# ---------------------------------------------------------------------------
class Subscriber(Entity):
    def __init__(self, name, w):
        super().__init__(name)
        self.w = w

    def handle_event(self, event):
        if event.event_type != "topic_message":
            return None
        payload = event.context.get("payload")
        tag = payload.context["metadata"]["tag"]
        self.w.receipts.append((self.now.nanoseconds, self.name, tag))
        self.w.trace(f"t={self.now.nanoseconds / TICK:g}s  subscriber {self.name} RECEIVES message #{tag}")
        return None


class TopicScript(Entity):
    def __init__(self, w):
        super().__init__("script")
        self.w = w

    def handle_event(self, event):
        if event.event_type != "tick":
            return None
        w = self.w
        i = event.context["metadata"]["i"]
        w.observe(i)
        if w.viol is not None:
            return None
        opts = w.applicable(i)
        if i < len(w.forced):
            op = w.forced[i]
            if op not in opts:
                w.aborted = True
                return None
        elif w.chooser is None or isinstance(w.chooser, Forced):
            op = "end"
        else:
            op = opts[w.chooser.choose(len(opts), tuple(opts))]
        if op == "end":
            # one more boundary two ticks later: everything in flight has landed
            return [Event(time=Instant((i + w.settle) * TICK), event_type="final", target=w.final_ent)]
        out = w.apply(op, self, i)
        nxt = Event(time=Instant((i + 1) * TICK), event_type="tick", target=self, context={"metadata": {"i": i + 1}})
        return out + [nxt]


class FinalEnt(Entity):
    def __init__(self, w):
        super().__init__("final")
        self.w = w

    def handle_event(self, event):
        self.w.observe(None)
        self.w.finished = True
        return None


class TopicWorld:
    def __init__(self, cfg, chooser, forced=(), max_len=5, verbose=False):
        _, _, Topic = _lib()
        self.cfg = cfg
        self.chooser = chooser
        self.forced = list(forced)
        self.max_len = max_len
        self.verbose = verbose
        self.lat_ns = int(round(cfg["lat"] * TICK))
        # the fan-out of one publish takes (active subscribers) x latency; with 0.75 s it spans one or two
        # ticks, so later operations land strictly inside the window (n x 0.75 s is never a whole tick for n <= 3)
        self.settle = 2 + (cfg["subs"] * self.lat_ns) // TICK
        self.unsub_times = {}  # subscriber -> times of its unsubscribe calls
        self.topic = Topic("t", delivery_latency=cfg["lat"])
        self.subs = [Subscriber(f"S{k}", self) for k in range(cfg["subs"])]
        self.script = TopicScript(self)
        self.final_ent = FinalEnt(self)
        self.active = set()
        for k in range(cfg.get("initial", 1)):
            self.topic.subscribe(self.subs[k])
            self.active.add(self.subs[k].name)
        self.ever = set(self.active)
        self.receipts = []
        self.published = []  # (tag, time, active set at publish, api)
        self.ops = []
        self.viol = None
        self.aborted = False
        self.finished = False
        self.checked = 0
        self.transitions = 0
        self.flags = set()
        self.max_pub = cfg.get("max_pub", 4)

    def trace(self, s):
        if self.verbose:
            print("  " + s)

    def applicable(self, i):
        if i >= self.max_len:
            return ["end"]
        opts = []
        if len(self.published) < self.max_pub:
            opts += ["pub", "pub2", "pubsync"]
        for s in self.subs:
            opts.append(("unsub" if s.name in self.active else "sub") + s.name[1:])
        if i > 0:
            opts.append("end")
        return opts

    def _payload(self, script):
        tag = len(self.published)
        return tag, Event(time=script.now, event_type="note", target=self.subs[0], context={"metadata": {"tag": tag}})

    def apply(self, op, script, i):
        t = self.topic
        now = script.now.nanoseconds
        self.ops.append(op)
        self.transitions += 1
        out = []
        if op in ("pub", "pub2"):
            for _ in range(2 if op == "pub2" else 1):
                tag, p = self._payload(script)
                self.published.append((tag, now, frozenset(self.active), "publish"))
                self.trace(f"t={i}s  op publish #{tag} (active: {sorted(self.active)})")
                out.append(Event(time=script.now, event_type="publish", target=t, context={"payload": p}))
            if op == "pub2":
                self.flags.add("concurrent-publish")
        elif op == "pubsync":
            tag, p = self._payload(script)
            self.published.append((tag, now, frozenset(self.active), "publish_sync"))
            self.trace(f"t={i}s  op publish_sync #{tag} (active: {sorted(self.active)})")
            out += list(t.publish_sync(p))
        else:
            k = int(op[-1])
            s = self.subs[k]
            self.trace(f"t={i}s  op {op[:-1]}scribe S{k}")
            if op.startswith("sub"):
                if s.name in self.ever:
                    self.flags.add("resubscribe")
                t.subscribe(s)
                self.active.add(s.name)
                self.ever.add(s.name)
            else:
                t.unsubscribe(s)
                self.active.discard(s.name)
                self.unsub_times.setdefault(s.name, []).append(now)
                self.flags.add("unsubscribe")
            if any(pt + len(act) * self.lat_ns > now for (_tg, pt, act, _api) in self.published if _api == "publish"):
                self.flags.add("change-during-fanout")
        return out

    def fail(self, fp, desc):
        if self.viol is None:
            self.viol = ("Topic/" + fp, desc)
            self.trace("!! " + self.viol[0] + ": " + desc)

    def observe(self, i):
        """Boundary i: every publish whose fan-out (active-at-publish x latency) ended before tick i is checked
        for completeness; deliveries to a subscriber that was not active at publish time are checked at once."""
        if self.viol is not None:
            return
        self.transitions += len(self.receipts) - self.checked
        self.checked = len(self.receipts)
        limit = None if i is None else i * TICK
        latc = "latency>0" if self.lat_ns else "latency=0"
        for (tag, t, act, api) in self.published:
            fan_end = t + (len(act) * self.lat_ns if api == "publish" else 0)
            got = [r for r in self.receipts if r[2] == tag]
            done = limit is None or fan_end < limit
            for s in sorted(act):
                n = sum(1 for r in got if r[1] == s)
                if n == 0 and done:
                    shape = latc
                    if any(t <= u <= fan_end for u in self.unsub_times.get(s, ())):
                        shape = "unsubscribed-during-fanout"
                    self.fail(f"not-received/{api}/{shape}",
                              f"message #{tag} published at {t}ns never reached {s}, active at publish time "
                              f"(stats say delivered={self.topic.stats.messages_delivered}); ops {self.ops}")
                    return
                if n > 1:
                    self.fail(f"duplicate/{api}",
                              f"message #{tag} reached {s} {n} times; ops {self.ops}")
                    return
            for r in got:
                if r[1] not in act:
                    self.fail(f"delivered-to-inactive/{api}",
                              f"message #{tag} published at {t}ns reached {r[1]}, not an active subscriber at publish "
                              f"time (active: {sorted(act)}); ops {self.ops}")
                    return

    def run(self):
        ents = [self.topic, self.script, self.final_ent] + self.subs
        sim = Simulation(entities=ents)
        sim.schedule(Event(time=Instant(0), event_type="tick", target=self.script, context={"metadata": {"i": 0}}))
        res = run_guarded(sim, max_events=2000, storm=300)
        if res["outcome"] != "done" and self.viol is None:
            self.fail(f"no-quiescence/{res['outcome']}", f"run did not finish: {res}; ops {self.ops}")
        return self

    def nontrivial(self):
        return bool(self.flags) and bool(self.published)

    def outcome(self):
        return digest((self.receipts, self.topic.stats.messages_delivered, self.topic.stats.messages_published))


# ---------------------------------------------------------------------------
# exploration of one sub-space: (world class, cfg, forced prefix, max length)
# ---------------------------------------------------------------------------
WORLDS = {"mq": MQWorld, "topic": TopicWorld}


def explore_space(job):
    kind, cfg, prefix, max_len = job
    W = WORLDS[kind]
    st = {"exec": 0, "trans": 0, "nontriv": 0, "outcomes": set(), "viol": {}, "samples": [], "aborted": 0}

    def run_fn(ch):
        return W(cfg, ch, forced=prefix, max_len=max_len).run()

    for _choices, _points, w in explore(run_fn):
        if w.aborted:
            st["aborted"] += 1
            continue
        if w.viol is not None and len(w.ops) < len(prefix):
            # stopped by a violation inside the forced prefix: the same (shorter) sequence is enumerated, and
            # counted, by the job that owns it; keep only the witness here
            fp, desc = w.viol
            rank = (bool(getattr(w, "draining", False)), len(w.ops))
            if fp not in st["viol"] or rank < tuple(st["viol"][fp][1]["rank"]):
                st["viol"][fp] = (desc, {"driver": kind, "cfg": cfg, "ops": list(w.ops), "rank": list(rank)})
            continue
        st["exec"] += 1
        st["trans"] += w.transitions
        if w.nontrivial():
            st["nontriv"] += 1
        st["outcomes"].add(w.outcome())
        if w.viol is not None:
            fp, desc = w.viol
            rank = (bool(getattr(w, "draining", False)), len(w.ops))
            if fp not in st["viol"] or rank < tuple(st["viol"][fp][1]["rank"]):
                st["viol"][fp] = (desc, {"driver": kind, "cfg": cfg, "ops": list(w.ops), "rank": list(rank)})
        if len(st["samples"]) < 1 and w.nontrivial() and st["exec"] % 211 == 7:
            st["samples"].append({"cfg": cfg, "ops": list(w.ops),
                                  "receipts": [list(r.values()) if isinstance(r, dict) else list(r)
                                               for r in w.receipts][:8]})
    return st


def replay_world(kind, cfg, ops):
    W = WORLDS[kind]
    w = W(cfg, Forced(), forced=list(ops), max_len=len(ops), verbose=True)
    w.run()
    return w

"""C14 helper — operations overlapping in simulated time (engine E2, full product).

2-3 client processes (generators run by the real ``Simulation``) issue short
programs of put/delete/get/scan against one engine.  Client 1 starts at 0, the
others at every offset of a grid finer than every latency of the engine, so a
read begins in every phase of another client's write (WAL append, WAL sync,
memtable write, flush latency, compaction latency, B-tree traversal / page
write).  A sequential prefix executed before the run puts the engine into a
non-initial state (data in the memtable, in L0, tombstones ...).

Oracle = interval (regular) register per key, on the order in which the harness
itself observed invocations and completions in the single-threaded run:
a read may return the value of write W iff W was invoked before the read
completed and no other write to the key was invoked after W completed and
completed before the read was invoked.  Deletes are writes of ABSENT; the
initial state is a completed write of ABSENT.  A scan is a read of every key of
its range plus "sorted, no duplicates, nothing outside the range".
"""
from __future__ import annotations

import itertools
import time

from mc.evidence import digest
from mc.harness import Entity, Event, Instant, Simulation, run_guarded

from props.c14_seq import ABSENT, drive, engine_name, make_engine

from happysimulator.components.storage.wal import SyncEveryWrite, SyncOnBatch, WriteAheadLog

US = 1000  # ns
LAT = {"sst_read": 10e-6, "sst_write": 20e-6, "wal_write": 10e-6, "wal_sync": 20e-6,
       "page_read": 10e-6, "page_write": 20e-6, "kv_read": 10e-6, "kv_write": 20e-6}
GRID_NS = 5 * US
INF = 10 ** 9
SCAN_LO, SCAN_HI = "a", "z"


def op_alphabet(keys, scan=True):
    return [(kd, k) for k in keys for kd in ("put", "del", "get")] + ([("scan",)] if scan else [])


def client_sets(keys, nclients, max_per_client, max_total, scan=True):
    """All ordered tuples of per-client programs within the bounds."""
    by_len = {n: list(itertools.product(op_alphabet(keys, scan), repeat=n)) for n in range(1, max_per_client + 1)}
    out = []
    for lens in itertools.product(range(1, max_per_client + 1), repeat=nclients):
        if sum(lens) > max_total:
            continue
        out.extend(itertools.product(*[by_len[n] for n in lens]))
    return out


def burst_sets(keys, full=False):
    """Write bursts: clients 1 and 2 issue one write each, client 3 a write followed by a read
    (get of either key or a scan).  With a small memtable the three writes land in different
    memtables whose flushes are in flight at the same time while the read runs.  ``full``: clients
    1 and 2 may also delete; otherwise they only put."""
    w12 = [(kd, k) for k in keys for kd in (("put", "del") if full else ("put",))]
    w3 = [(kd, k) for k in keys for kd in ("put", "del")]
    r3 = [("get", k) for k in keys] + [("scan",)]
    return [((a,), (b,), (c, r)) for a in w12 for b in w12 for c in w3 for r in r3]


def prefixes(keys, maxlen):
    ops = [(kd, k) for k in keys for kd in ("put", "del")]
    out = [()]
    for n in range(1, maxlen + 1):
        out.extend(itertools.product(ops, repeat=n))
    return out


class Op:
    __slots__ = ("client", "idx", "kind", "key", "value", "s", "e", "t0", "t1", "result", "st0", "st1")

    def __init__(self, client, idx, kind, key, value):
        self.client, self.idx, self.kind, self.key, self.value = client, idx, kind, key, value
        self.s = self.e = None
        self.t0 = self.t1 = None
        self.result = None
        self.st0 = self.st1 = None

    def brief(self):
        a = f"{self.kind}({self.key!r}" + (f",{self.value}" if self.kind == "put" else "") + ")" \
            if self.kind != "scan" else "scan()"
        return (f"c{self.client}#{self.idx} {a} [{self.t0}ns..{self.t1}ns, order {self.s}..{self.e}]"
                + (f" -> {self.result!r}" if self.kind in ("get", "scan") else ""))


class Ctx:
    def __init__(self, eng, cfg):
        self.eng, self.cfg = eng, cfg
        self.seq = 0
        self.ops = []
        self.done = {}

    def stat(self):
        try:
            st = self.eng.stats
            if self.cfg[0] == "lsm":
                return (st.memtable_flushes, st.compactions)
            if self.cfg[0] == "btree":
                return (st.node_splits, 0)
        except AttributeError:
            pass
        return (0, 0)

    def begin(self, op, now_ns):
        op.s = self.seq
        self.seq += 1
        op.t0 = now_ns
        op.st0 = self.stat()
        self.ops.append(op)

    def end(self, op, result, now_ns):
        op.e = self.seq
        self.seq += 1
        op.t1 = now_ns
        op.st1 = self.stat()
        op.result = result


class Client(Entity):
    def __init__(self, idx, eng, prog, ctx):
        super().__init__(f"client{idx}")
        self.idx, self.eng, self.prog, self.ctx = idx, eng, prog, ctx

    def handle_event(self, event):
        return self._run()

    def _run(self):
        ctx, eng = self.ctx, self.eng
        for j, o in enumerate(self.prog):
            kind = o[0]
            key = o[1] if kind != "scan" else None
            op = Op(self.idx, j, kind, key, 100 * self.idx + 10 * j + 1 if kind == "put" else None)
            ctx.begin(op, self.now.nanoseconds)
            if kind == "put":
                r = yield from eng.put(key, op.value)
            elif kind == "del":
                r = yield from eng.delete(key)
            elif kind == "get":
                r = yield from eng.get(key)
            else:
                r = yield from eng.scan(SCAN_LO, SCAN_HI)
            ctx.end(op, r, self.now.nanoseconds)
        ctx.done[self.idx] = True


def build(cfg, wal_mode):
    wal = None
    if cfg[0] == "lsm" and wal_mode:
        pol = SyncEveryWrite() if wal_mode == "every" else SyncOnBatch(batch_size=2)
        wal = WriteAheadLog("wal", sync_policy=pol, write_latency=LAT["wal_write"], sync_latency=LAT["wal_sync"])
    eng = make_engine(cfg, wal=wal, lat=LAT)
    return eng, wal


def execute(cfg, wal_mode, prefix, progs, offsets, max_events=4000):
    """One complete execution on the real Simulation.  Returns (ctx, pre_ops, run_info, final)."""
    eng, wal = build(cfg, wal_mode)
    ctx = Ctx(eng, cfg)
    clients = [Client(i + 1, eng, p, ctx) for i, p in enumerate(progs)]
    ents = [eng] + ([wal] if wal is not None else []) + clients
    sim = Simulation(entities=ents)
    # sequential prefix (clock exists, stays at 0): *_sync where the engine has it, else hand-driven
    pre = []
    for j, (kd, k) in enumerate(prefix):
        # prefix payloads 0, 10, 20: the first one is falsy on purpose (a stored 0 is a value, not a miss)
        op = Op(0, j, kd, k, 10 * j if kd == "put" else None)
        ctx.begin(op, 0)
        if kd == "put":
            if j % 2 == 0:
                eng.put_sync(k, op.value)
            else:
                drive(eng.put(k, op.value))
        else:
            drive(eng.delete(k))
        ctx.end(op, None, 0)
        pre.append(op)
    for c, off in zip(clients, offsets):
        sim.schedule(Event(time=Instant(off), event_type="go", target=c))
    info = run_guarded(sim, max_events=max_events, storm=500)
    info["finished"] = all(ctx.done.get(c.idx) for c in clients)
    # quiescent final image (reads that begin after everything that completed)
    final = None
    if info["finished"] and info["outcome"] == "done":
        final = {"get_sync": {}, "get": {}, "scan": None}
        for k in keys_of(prefix, progs):
            final["get_sync"][k] = eng.get_sync(k)
            final["get"][k] = drive(eng.get(k))
        if cfg[0] != "kv":
            final["scan"] = drive(eng.scan(SCAN_LO, SCAN_HI))
        else:
            final["scan"] = sorted((k, eng.get_sync(k)) for k in eng.keys())
    return ctx, pre, info, final


def keys_of(prefix, progs):
    ks = set()
    for o in prefix:
        ks.add(o[1])
    for p in progs:
        for o in p:
            if o[0] != "scan":
                ks.add(o[1])
    return sorted(ks) or ["a"]


# ---------------------------------------------------------------------------
# interval-register oracle
# ---------------------------------------------------------------------------
def allowed(writes, r_s, r_e):
    """writes: [(s, e, value)] for one key.  Values a read invoked at r_s / completed at r_e may return."""
    out = set()
    for (s, e, v) in writes:
        if s >= r_e:
            continue  # invoked after the read completed
        superseded = False
        for (s2, e2, _v2) in writes:
            if s2 > e and e2 < r_s:
                superseded = True
                break
        if not superseded:
            out.add(v)
    return out


def window(cfg, ops, r):
    """Shape class of a bad read: what another client's in-flight write did after the read began."""
    if r is None:
        return "after-quiescence"
    inflight = [w for w in ops if w.kind in ("put", "del") and w.client != r.client and w.client != 0
                and w.s < r.e and (w.e is None or w.e > r.s)]
    if not inflight:
        return "quiescent"
    a = max((w.st1[0] - r.st0[0]) if w.st1 else 0 for w in inflight)
    b = max((w.st1[1] - r.st0[1]) if w.st1 else 0 for w in inflight)
    if cfg[0] == "lsm":
        if a > 0:
            return "during-flush"
        if b > 0:
            return "during-compaction"
    if cfg[0] == "btree" and a > 0:
        return "during-split"
    return "during-write"


def clause_for(got, allowed_vals, all_vals):
    if got is ABSENT:
        return "lost-write"
    if got not in all_vals:
        return "phantom"
    if allowed_vals == {ABSENT}:
        return "resurrected"
    return "stale-read"


def oracle(cfg, ctx, final, keys):
    """Returns [(clause, window, description)]."""
    out = []
    name = engine_name(cfg)
    ops = ctx.ops
    writes = {k: [(-2, -1, ABSENT)] for k in keys}
    vals = {k: set() for k in keys}
    for o in ops:
        if o.kind == "put":
            writes[o.key].append((o.s, o.e if o.e is not None else INF, o.value))
            vals[o.key].add(o.value)
        elif o.kind == "del":
            writes[o.key].append((o.s, o.e if o.e is not None else INF, ABSENT))

    def fmt_w(k):
        return ", ".join(f"{'ABSENT' if v is ABSENT else v}@[{s}..{e if e < INF else 'open'}]"
                         for s, e, v in writes[k])

    for r in ops:
        if r.e is None:
            continue
        if r.kind == "get":
            al = allowed(writes[r.key], r.s, r.e)
            if r.result not in al:
                out.append((clause_for(r.result, al, vals[r.key]), window(cfg, ops, r),
                            f"{name}: {r.brief()} but the register allows only "
                            f"{sorted(map(repr, al))} (writes to {r.key!r}: {fmt_w(r.key)})"))
        elif r.kind == "scan":
            out.extend(_check_scan(cfg, name, ops, r, r.result, r.s, r.e, writes, vals, keys, fmt_w))
    if final is not None:
        for api in ("get_sync", "get"):
            for k, got in final[api].items():
                al = allowed(writes[k], INF, INF + 1)
                if got not in al:
                    out.append((clause_for(got, al, vals[k]), "after-quiescence",
                                f"{name}: after all operations completed {api}({k!r}) = {got!r} but the register "
                                f"allows only {sorted(map(repr, al))} (writes: {fmt_w(k)})"))
        out.extend(_check_scan(cfg, name, ops, None, final["scan"], INF, INF + 1, writes, vals, keys, fmt_w))
    return out


def _check_scan(cfg, name, ops, r, result, r_s, r_e, writes, vals, keys, fmt_w):
    out = []
    what = r.brief() if r is not None else f"final scan -> {result!r}"
    win = window(cfg, ops, r)
    try:
        got = [(k, v) for k, v in result]
    except (TypeError, ValueError):
        return [("scan-shape", win, f"{name}: {what}: result is not a list of (key, value) pairs")]
    gk = [k for k, _ in got]
    if gk != sorted(gk) or len(gk) != len(set(gk)):
        out.append(("scan-order", win, f"{name}: {what}: keys not strictly ascending"))
    gd = dict(got)
    for k in gk:
        if k not in writes:
            out.append(("scan-extra-key", win, f"{name}: {what}: key {k!r} was never written"))
    for k in keys:
        if not (SCAN_LO <= k < SCAN_HI):
            continue
        al = allowed(writes[k], r_s, r_e)
        if k in gd:
            if gd[k] not in al:
                if al == {ABSENT}:
                    cl = "scan-extra-key"
                elif gd[k] not in vals[k]:
                    cl = "scan-phantom-value"
                else:
                    cl = "scan-stale-value"
                out.append((cl, win, f"{name}: {what}: key {k!r} reported with {gd[k]!r}, register allows "
                                     f"{sorted(map(repr, al))} (writes: {fmt_w(k)})"))
        elif ABSENT not in al:
            out.append(("scan-missing-key", win, f"{name}: {what}: live key {k!r} missing, register allows "
                                                 f"{sorted(map(repr, al))} (writes: {fmt_w(k)})"))
    return out


def nontrivial(ctx):
    """A read began or ended while a put/delete of another client was in flight."""
    for r in ctx.ops:
        if r.kind not in ("get", "scan") or r.e is None or r.client == 0:
            continue
        for w in ctx.ops:
            if w.kind in ("put", "del") and w.client not in (0, r.client) and w.e is not None:
                if w.s < r.s < w.e or w.s < r.e < w.e:
                    return True
    return False


def observation(ctx, final):
    return digest(([(o.client, o.idx, o.s, o.e, o.t0, o.t1, repr(o.result)) for o in ctx.ops], repr(final)))


# ---------------------------------------------------------------------------
# worker: one (cfg, wal, prefix) sub-space = all client sets x all offsets
# ---------------------------------------------------------------------------
def clients_overlap(ctx):
    """Did operations of two different clients overlap (in observed order)?"""
    ops = [o for o in ctx.ops if o.client != 0 and o.e is not None]
    for a, b in itertools.combinations(ops, 2):
        if a.client != b.client and a.s < b.e and b.s < a.e:
            return True
    return False


def work(job):
    """One sub-space: (engine cfg, wal, prefix) x a chunk of the client-program sets x ALL offsets.

    Two clients: the offset of client 2 walks the grid 0, G, 2G, ... until the first execution in
    which no operations of different clients overlapped (that sequential execution is still run and
    checked); larger offsets only shift it in time.  ``grid_cap`` bounds the walk (reported if hit).
    Three clients: full product of a fixed offset grid.
    """
    cfg, wal_mode, prefix, keys, nclients, max_per, max_total, grid_cap, chunk, nchunks = job
    t0 = time.process_time()
    st = {"exec": 0, "ops": 0, "nontriv": 0, "outcomes": set(), "viol": {}, "samples": [],
          "unfinished": 0, "times": set(), "cap_hits": 0, "max_offset": 0}
    if nclients == "burst":
        sets = burst_sets(keys, full=bool(max_total))[chunk::nchunks]
        nclients = 3
    else:
        sets = client_sets(keys, nclients, max_per, max_total, scan=cfg[0] != "kv")[chunk::nchunks]
    name = engine_name(cfg)
    grid = list(range(0, grid_cap + 1, GRID_NS))

    def one(progs, offsets):
        try:
            ctx, pre, info, final = execute(cfg, wal_mode, prefix, progs, offsets)
        except Exception as exc:
            import traceback
            fp = f"{name}/crash-{type(exc).__name__}/overlap"
            st["viol"].setdefault(fp, (f"{name} raised {type(exc).__name__}: {exc} | "
                                       + traceback.format_exc().splitlines()[-3].strip(),
                                       _rep(cfg, wal_mode, prefix, progs, offsets)))
            st["exec"] += 1
            return True
        st["exec"] += 1
        st["ops"] += len(ctx.ops)
        if not info["finished"] or info["outcome"] != "done":
            st["unfinished"] += 1
        if nontrivial(ctx):
            st["nontriv"] += 1
        st["outcomes"].add(observation(ctx, final))
        for o in ctx.ops:
            st["times"].add(o.t0 % GRID_NS)
        for clause, win, desc in oracle(cfg, ctx, final, keys):
            fp = f"{name}/{clause}/{win}"
            if fp not in st["viol"]:
                st["viol"][fp] = (desc, _rep(cfg, wal_mode, prefix, progs, offsets))
        if len(st["samples"]) < 1 and st["exec"] % 1201 == 7:
            st["samples"].append({"cfg": cfg, "wal": wal_mode, "prefix": prefix, "programs": progs,
                                  "offsets_ns": offsets, "ops": [o.brief() for o in ctx.ops]})
        return clients_overlap(ctx)

    for progs in sets:
        if nclients == 2:
            stopped = False
            for off in grid:
                st["max_offset"] = max(st["max_offset"], off)
                if not one(progs, (0, off)):
                    stopped = True
                    break
            if not stopped:
                st["cap_hits"] += 1
        else:
            for off in itertools.product(grid, repeat=nclients - 1):
                one(progs, (0,) + off)
    st["wall"] = time.process_time() - t0
    return st


def _rep(cfg, wal_mode, prefix, progs, offsets):
    return {"driver": "overlap", "cfg": cfg, "wal": wal_mode, "prefix": prefix, "programs": progs,
            "offsets_ns": offsets}


def _thaw(x):
    return tuple(_thaw(i) for i in x) if isinstance(x, list) else x


def replay_overlap(rep):
    cfg = _thaw(rep["cfg"])
    prefix = _thaw(rep["prefix"])
    progs = _thaw(rep["programs"])
    offsets = tuple(rep["offsets_ns"])
    print(f"engine {cfg} wal={rep['wal']} latencies(s)={LAT}")
    print(f"prefix (sequential, before the run): {prefix}")
    for i, (p, o) in enumerate(zip(progs, offsets)):
        print(f"client{i + 1} starts at {o}ns: {p}")
    ctx, pre, info, final = execute(cfg, rep["wal"], prefix, progs, offsets)
    print(f"run: {info}")
    for o in sorted(ctx.ops, key=lambda o: o.s):
        print("  " + o.brief() + f"  stats(begin,end)={o.st0},{o.st1}")
    print(f"  final image: {final}")
    keys = sorted(set(keys_of(prefix, progs)) | {"a", "b"})
    v = oracle(cfg, ctx, final, keys)
    for clause, win, desc in v:
        print(f"  !! {engine_name(cfg)}/{clause}/{win}: {desc}")
    return 1 if v else 0

"""C20 helpers: sketch families (construction, colliding alphabets, public
observations, oracles tied to the clauses of the property statement).

Every verdict is computed from PUBLIC behaviour (query results, public
properties).  Private attributes are touched in exactly two advisory places,
both with a fallback when the name is missing:
  * ``hll_hints``: reads ``_registers`` of single-item sketches to pick an
    alphabet / saturating probe streams that make the public ``cardinality()``
    sensitive to the register contents (fallback: generic candidates);
  * ``pickle.dumps(sketch)`` (whole object, no names) as a canonical state key
    for counting distinct states and for memoising the public observation of
    identical states.
"""
from __future__ import annotations

import pickle
from collections import Counter

import mc.harness  # noqa: F401  (puts VERIF_REPO on sys.path before the library import)

from happysimulator.sketching.bloom_filter import BloomFilter  # noqa: E402
from happysimulator.sketching.count_min_sketch import CountMinSketch  # noqa: E402
from happysimulator.sketching.hyperloglog import HyperLogLog  # noqa: E402
from happysimulator.sketching.merkle_tree import MerkleTree  # noqa: E402
from happysimulator.sketching.reservoir import ReservoirSampler  # noqa: E402
from happysimulator.sketching.tdigest import TDigest  # noqa: E402
from happysimulator.sketching.topk import TopK  # noqa: E402

EPS = 1e-9  # float tolerance for the t-digest clauses (values are small integers)
QGRID = [i / 20 for i in range(21)]


def cands(kind, n, start=0):
    if kind == "int":
        return list(range(start, start + n))
    if kind == "str":
        return [f"k{i}" for i in range(start, start + n)]
    # mixed: ints and strings interleaved
    out = []
    for i in range(start, start + n):
        out.append(i if i % 2 == 0 else f"k{i}")
    return out


def add(sk, item, w):
    """One stream element: weight 1 goes through the default-count path."""
    if w == 1:
        sk.add(item)
    else:
        sk.add(item, w)


def clone(sk):
    return pickle.loads(pickle.dumps(sk, -1))


# ---------------------------------------------------------------------------
# families
# ---------------------------------------------------------------------------
class Family:
    kind = "?"
    mergeable = False      # statement has a merge == concatenation clause for it
    merge_checked = False  # one-sided clauses are also evaluated on merged halves

    def __init__(self, cfg):
        self.cfg = dict(cfg)
        self.items = list(cfg.get("items") or [])
        self.probes = list(cfg.get("probes") or [])
        self._memo = {}

    # -- to be provided ---------------------------------------------------
    def new(self):
        raise NotImplementedError

    def check(self, sk, stream, shape, obs=None):
        """One-sided clauses on a sketch that consumed ``stream`` [(item, w)...]
        (``obs``: its public observation if already taken).
        Returns (violations [(fp, desc)], nontrivial: bool, outcome)."""
        return [], False, None

    def observe(self, sk):
        """Public observation: list of (label, value)."""
        return []

    # -- shared -----------------------------------------------------------
    query_pure = True  # read-only queries must not change any later answer (False: t-digest, queries flush)

    def queries(self, sk):
        """Every public read-only query of the sketch, as zero-argument callables."""
        return []

    def touch(self, sk):
        """Call every public read-only query (results ignored: this only puts the
        sketch in the 'has been queried' condition; verdicts come from check/observe)."""
        common = [lambda: sk.item_count, lambda: sk.memory_bytes, lambda: repr(sk), lambda: str(sk)]
        for q in list(self.queries(sk)) + common:
            try:
                q()
            except Exception:
                pass
        return sk

    def build(self, stream, touch=False):
        """touch=True: every read-only query is called on the fresh sketch and after every insertion."""
        sk = self.new()
        if touch:
            self.touch(sk)
        for (x, w) in stream:
            add(sk, x, w)
            if touch:
                self.touch(sk)
        return sk

    def obs(self, sk, blob=None):
        """Memoised public observation (key: pickled whole object; advisory)."""
        try:
            key = blob if blob is not None else pickle.dumps(sk, -1)
        except Exception:
            return tuple(self.observe(sk)), None
        o = self._memo.get(key)
        if o is None:
            o = tuple(self.observe(sk))
            self.impl_calls += 1
            if len(self._memo) < 200000:
                self._memo[key] = o
        return o, key

    # -- explicit state graph (mergeable families) ---------------------------
    # A state is the pickled sketch; every object handed to the library is
    # re-created from such a pickle, so the result of add / merge / observe is a
    # function of the pickles involved and is executed once per distinct input.
    impl_calls = 0

    def init_graph(self):
        self._intern = {}
        self._trans = {}
        self._pairs = {}
        self._touch = {}
        self.empty = self.canon(pickle.dumps(self.new(), -1))

    def canon(self, blob):
        return self._intern.setdefault(blob, blob)

    def step(self, blob, si, sym):
        key = (blob, si)
        nb = self._trans.get(key)
        if nb is None:
            sk = pickle.loads(blob)
            add(sk, sym[0], sym[1])
            nb = self.canon(pickle.dumps(sk, -1))
            self.impl_calls += 1
            self._trans[key] = nb
        return nb

    def touched(self, blob):
        """State after every read-only query was called once on it."""
        nb = self._touch.get(blob)
        if nb is None:
            sk = pickle.loads(blob)
            self.touch(sk)
            nb = self.canon(pickle.dumps(sk, -1))
            self.impl_calls += 1
            self._touch[blob] = nb
        return nb

    def obs_blob(self, blob):
        o = self._memo.get(blob)
        if o is None:
            o = tuple(self.observe(pickle.loads(blob)))
            self.impl_calls += 1
            self._memo[blob] = o
        return o

    def merged(self, ba, bb):
        """(observation, canonical blob) of loads(ba).merge(loads(bb))."""
        key = (ba, bb)
        r = self._pairs.get(key)
        if r is None:
            a = pickle.loads(ba)
            b = pickle.loads(bb)
            a.merge(b)
            kb = self.canon(pickle.dumps(a, -1))
            self.impl_calls += 1
            r = (self.obs_blob(kb), kb)
            if len(self._pairs) < 400000:
                self._pairs[key] = r
        return r

    def label(self):
        c = {k: v for k, v in self.cfg.items() if k not in ("probes", "saturators")}
        return f"{self.kind}{c}"


class BloomFam(Family):
    kind = "BloomFilter"
    mergeable = True

    def new(self):
        return BloomFilter(size_bits=self.cfg["m"], num_hashes=self.cfg["h"], seed=self.cfg["seed"])

    def queries(self, sk):
        xs = (self.items + self.probes)[:6]
        return ([lambda x=x: sk.contains(x) for x in xs] + [lambda x=x: x in sk for x in xs]
                + [lambda: sk.false_positive_rate, lambda: sk.fill_ratio, lambda: sk.size_bits, lambda: sk.num_hashes])

    def check(self, sk, stream, shape, obs=None):
        o = dict(obs if obs is not None else self.observe(sk))
        v = []
        inserted = {x for (x, _w) in stream}
        flags = dict(zip(self.items + self.probes, o["contains"]))
        flags_in = dict(zip(self.items, o["in"]))
        for x in inserted:
            if not flags[x] or not flags_in[x]:
                v.append((f"BloomFilter/no-false-negative/{shape}",
                          f"item {x!r} was inserted but contains() reports it absent"))
                break
        fp = any(f and y not in inserted for y, f in flags.items())
        return v, fp, o["contains"]

    def observe(self, sk):
        o = [("contains", tuple(sk.contains(p) for p in self.items + self.probes))]
        o.append(("in", tuple(p in sk for p in self.items)))
        o.append(("item_count", sk.item_count))
        o.append(("fill_ratio", sk.fill_ratio))
        o.append(("false_positive_rate", sk.false_positive_rate))
        o.append(("dims", (sk.size_bits, sk.num_hashes)))
        return o


class CMSFam(Family):
    kind = "CountMinSketch"
    mergeable = True

    def new(self):
        return CountMinSketch(width=self.cfg["w"], depth=self.cfg["d"], seed=self.cfg["seed"])

    def queries(self, sk):
        xs = (self.items + self.probes)[:6]
        return ([lambda x=x: sk.estimate(x) for x in xs] + [lambda x=x: sk.estimate_with_error(x) for x in xs]
                + [lambda: sk.inner_product(sk), lambda: sk.epsilon, lambda: sk.delta, lambda: sk.width, lambda: sk.depth])

    def check(self, sk, stream, shape, obs=None):
        o = dict(obs if obs is not None else self.observe(sk))
        true = Counter()
        for (x, w) in stream:
            true[x] += w
        v = []
        over = False
        for x, e, (e2, _err) in zip(self.items, o["estimate"], o["estimate_with_error"]):
            if e < true[x] or e2 < true[x]:
                v.append((f"CountMinSketch/never-underestimates/{shape}",
                          f"item {x!r}: true count {true[x]} but estimate {min(e, e2)}"))
                break
            if e > true[x]:
                over = True
        return v, over, o["estimate"]

    def observe(self, sk):
        o = [("estimate", tuple(sk.estimate(p) for p in self.items + self.probes))]
        ewe = [sk.estimate_with_error(p) for p in self.items]
        o.append(("estimate_with_error", tuple((fe.count, fe.error) for fe in ewe)))
        o.append(("item_count", sk.item_count))
        o.append(("dims", (sk.width, sk.depth)))
        return o


class HLLFam(Family):
    kind = "HyperLogLog"
    mergeable = True

    def new(self):
        return HyperLogLog(precision=self.cfg["p"], seed=self.cfg["seed"])

    def queries(self, sk):
        return [lambda: sk.cardinality(), lambda: sk.standard_error(), lambda: sk.precision, lambda: sk.num_registers]

    def check(self, sk, stream, shape, obs=None):
        # The statement has no accuracy clause for HyperLogLog (only merge == union).
        o = dict(obs if obs is not None else self.observe(sk))
        distinct = len({x for (x, _w) in stream})
        return [], o["cardinality"] < distinct, o["cardinality"]

    def observe(self, sk):
        o = [("cardinality", sk.cardinality()), ("item_count", sk.item_count)]
        fut = []
        for sat in self.cfg.get("saturators") or []:
            c = clone(sk)
            for y in sat:
                c.add(y)
            fut.append(c.cardinality())
        o.append(("future_cardinality", tuple(fut)))
        return o


class TopKFam(Family):
    kind = "TopK"
    merge_checked = False

    def new(self):
        return TopK(k=self.cfg["k"])

    def queries(self, sk):
        xs = self.items
        return ([lambda: sk.top(None), lambda: sk.top(1), lambda: sk.max_error(), lambda: sk.guaranteed_threshold(),
                 lambda: sk.tracked_count, lambda: sk.k]
                + [lambda x=x: sk.estimate(x) for x in xs] + [lambda x=x: sk.estimate_with_error(x) for x in xs]
                + [lambda x=x: x in sk for x in xs])

    def check(self, sk, stream, shape, obs=None):
        k = self.cfg["k"]
        true = Counter()
        n = 0
        for (x, w) in stream:
            true[x] += w
            n += w
        v = []
        top = sk.top(None)
        tracked = {fe.item for fe in top}
        for fe in top:
            t = true[fe.item]
            if fe.count - fe.error > t:
                v.append((f"TopK/estimate-exceeds-true-by-more-than-error/{shape}",
                          f"top(): item {fe.item!r} count {fe.count} error {fe.error} but true count {t}"))
                break
            if t > fe.count:
                v.append((f"TopK/tracked-estimate-below-true/{shape}",
                          f"top(): tracked item {fe.item!r} count {fe.count} < true count {t}"))
                break
        for x in self.items:
            fe = sk.estimate_with_error(x)
            est = sk.estimate(x)
            t = true[x]
            if max(est, fe.count) - fe.error > t:
                v.append((f"TopK/estimate-exceeds-true-by-more-than-error/{shape}",
                          f"item {x!r}: estimate {max(est, fe.count)} reported error {fe.error} true {t}"))
                break
            if (x in sk) and (est < t or fe.count < t):
                v.append((f"TopK/tracked-estimate-below-true/{shape}",
                          f"tracked item {x!r}: estimate {min(est, fe.count)} < true count {t}"))
                break
            if t * k > n and (x not in tracked or x not in sk):
                v.append((f"TopK/heavy-item-not-tracked/{shape}",
                          f"item {x!r} has true count {t} > N/k = {n}/{k} but is not tracked"))
                break
        return v, len(true) > k, tuple(sorted((repr(fe.item), fe.count, fe.error) for fe in top))

    def observe(self, sk):
        return [("top", tuple(sorted((repr(fe.item), fe.count, fe.error) for fe in sk.top(None)))),
                ("item_count", sk.item_count)]


class TDigestFam(Family):
    kind = "TDigest"
    merge_checked = True

    def new(self):
        return TDigest(compression=self.cfg["c"])

    query_pure = False  # a query flushes the buffer: later clustering (hence later answers) may legitimately differ

    def queries(self, sk):
        return [lambda: sk.quantile(0.5), lambda: sk.percentile(90), lambda: sk.cdf(1.0), lambda: sk.min,
                lambda: sk.max, lambda: sk.centroid_count, lambda: sk.compression]

    def build(self, stream, touch=False):
        # mode 'each': every read-only query between insertions (forces the buffered values in)
        return Family.build(self, stream, touch or self.cfg.get("mode") == "each")

    def check(self, sk, stream, shape, obs=None):
        if not stream:
            return [], False, ()  # no quantiles of an empty digest: statement is silent
        vals = [x for (x, _w) in stream]
        lo, hi = min(vals), max(vals)
        n = sum(w for (_x, w) in stream)
        v = []
        qs = [sk.quantile(q) for q in QGRID]
        for i in range(1, len(qs)):
            if qs[i] < qs[i - 1] - EPS:
                v.append((f"TDigest/quantiles-not-monotone/{shape}",
                          f"quantile({QGRID[i - 1]})={qs[i - 1]!r} > quantile({QGRID[i]})={qs[i]!r}"))
                break
        for q, val in zip(QGRID, qs):
            if not (lo - EPS <= val <= hi + EPS):
                v.append((f"TDigest/quantile-outside-min-max/{shape}",
                          f"quantile({q})={val!r} outside observed [{lo}, {hi}]"))
                break
        return v, sk.centroid_count < n, tuple(qs)

    def observe(self, sk):
        return [("quantiles", tuple(sk.quantile(q) for q in QGRID) if sk.item_count else ()),
                ("item_count", sk.item_count)]


class ReservoirFam(Family):
    kind = "ReservoirSampler"
    merge_checked = True

    def new(self):
        return ReservoirSampler(size=self.cfg["k"], seed=self.cfg["seed"])

    def queries(self, sk):
        return [lambda: sk.sample(), lambda: list(sk), lambda: len(sk), lambda: sk[0], lambda: sk.is_full,
                lambda: sk.sample_size, lambda: sk.capacity]

    def check(self, sk, stream, shape, obs=None):
        k = self.cfg["k"]
        true = Counter()
        n = 0
        for (x, w) in stream:
            true[x] += w
            n += w
        s = sk.sample()
        v = []
        if len(s) != min(k, n):
            v.append((f"ReservoirSampler/size-not-min-k-n/{shape}",
                      f"capacity {k}, {n} stream items, but the reservoir holds {len(s)} items: {s!r}"))
        else:
            c = Counter(s)
            for x, m in c.items():
                if m > true[x]:
                    what = "never in the stream" if true[x] == 0 else f"only {true[x]}x in the stream"
                    v.append((f"ReservoirSampler/holds-items-not-of-stream/{shape}",
                              f"reservoir {s!r} holds {x!r} {m}x, {what}"))
                    break
        return v, n > k, tuple(s)

    def observe(self, sk):
        return [("sample", tuple(sk.sample())), ("item_count", sk.item_count)]


FAMILIES = {f.kind: f for f in (BloomFam, CMSFam, HLLFam, TopKFam, TDigestFam, ReservoirFam)}


def make_family(spec):
    kind, cfg = spec
    return FAMILIES[kind](cfg)


# ---------------------------------------------------------------------------
# colliding alphabets: computed through the sketch's own hashing, by PUBLIC
# queries on fresh sketches (no private names), so they follow any change of
# the hash functions / PYTHONHASHSEED.
# ---------------------------------------------------------------------------
def bloom_alphabet(m, h, seed, kind, n_items=4, ncand=96):
    C = cands(kind, ncand)

    def mk(*xs):
        f = BloomFilter(size_bits=m, num_hashes=h, seed=seed)
        for x in xs:
            f.add(x)
        return f

    single = {}
    for x in C:
        f = mk(x)
        single[x] = {y for y in C if f.contains(y)}
    info = {}
    a = b = c = None
    for i in range(min(24, len(C))):
        for j in range(i + 1, min(24, len(C))):
            x, y = C[i], C[j]
            if y in single[x] or x in single[y]:
                continue
            f = mk(x, y)
            cov = [z for z in C if z not in (x, y) and f.contains(z) and z not in single[x] and z not in single[y]]
            if cov:
                a, b, c = x, y, cov[0]
                break
        if a is not None:
            break
    if a is None:  # nothing collides (would be reported as a vacuous driver by the counts)
        a, b, c = C[0], C[1], C[2]
        info["warning"] = "no union-covered triple found"
    else:
        info["union_covered"] = f"{c!r} is reported present once {a!r} and {b!r} are both inserted"
    items = [a, b, c]
    twin = next((y for y in C if y not in items and y in single[a] and a in single[y]), None)
    if twin is not None:
        items.append(twin)
        info["twin"] = f"{twin!r} sets exactly the bits of {a!r}"
    f = mk(*items)
    fresh = [y for y in C if y not in items and not f.contains(y)]
    rest = [y for y in C if y not in items]
    for y in fresh + rest:
        if len(items) >= n_items:
            break
        if y not in items:
            items.append(y)
    items = items[:n_items]
    probes = [y for y in C if y not in items][:48]
    return items, probes, info


def cms_alphabet(w, d, seed, kind, n_items=4, ncand=96):
    C = cands(kind, ncand)

    def mk(*xs):
        f = CountMinSketch(width=w, depth=d, seed=seed)
        for x in xs:
            f.add(x)
        return f

    single = {}
    for x in C:
        f = mk(x)
        single[x] = {y for y in C if f.estimate(y) > 0}
    info = {}
    a = b = c = None
    for i in range(min(24, len(C))):
        for j in range(i + 1, min(24, len(C))):
            x, y = C[i], C[j]
            if y in single[x]:
                continue
            f = mk(x, y)
            cov = [z for z in C if z not in (x, y) and f.estimate(z) > 0 and z not in single[x] and z not in single[y]]
            if cov:
                a, b, c = x, y, cov[0]
                break
        if a is not None:
            break
    if a is None:
        a, b, c = C[0], C[1], C[2]
        info["warning"] = "no partially colliding triple found"
    else:
        info["partial"] = f"{c!r} shares one row cell with {a!r} and another with {b!r}"
    items = [a, b, c]
    twin = next((y for y in C if y not in items and y in single[a]), None)
    if twin is not None:
        items.append(twin)
        info["twin"] = f"{twin!r} shares every cell of {a!r}"
    for y in C:
        if len(items) >= n_items:
            break
        if y not in items:
            items.append(y)
    items = items[:n_items]
    probes = [y for y in C if y not in items][:40]
    return items, probes, info


def hll_alphabet(p, seed, kind, n_items=4, ncand=400, nsat=6000):
    """Items that share registers with different ranks (incl. the first and the
    last register), and saturating probe streams that make cardinality() of
    (sketch + probe stream) a sharp function of those registers."""
    C = cands(kind, ncand)
    m = 1 << p
    info = {}

    def slot(x):
        s = HyperLogLog(precision=p, seed=seed)
        s.add(x)
        regs = getattr(s, "_registers", None)
        if regs is None:
            return None
        nz = [(i, r) for i, r in enumerate(regs) if r]
        return nz[0] if len(nz) == 1 else None

    slots = {x: slot(x) for x in C}
    if any(v is None for v in slots.values()):
        # fallback without private names: same-register classes through public cardinality()
        info["hints"] = "public-only"
        base = C[0]
        same = []
        for y in C[1:]:
            s = HyperLogLog(precision=p, seed=seed)
            s.add(base)
            c1 = s.cardinality()
            s.add(y)
            if s.cardinality() == c1:
                same.append(y)
        items = ([base] + same[:2] + [y for y in C[1:] if y not in same])[:n_items]
        sats = [cands("int", 120, 10_000), cands("int", 60, 20_000)]
        return items, [], info, sats
    by_reg = {}
    for x, (i, r) in slots.items():
        by_reg.setdefault(i, {}).setdefault(r, x)  # first candidate per (register, rank)
    order = [m - 1, 0] + [i for i in sorted(by_reg) if i not in (0, m - 1)]
    items, used = [], []
    for reg in order:
        ranks = by_reg.get(reg, {})
        if len(ranks) < 2:
            continue
        rs = sorted(ranks)
        pick = [ranks[rs[-1]], ranks[rs[0]]] if not items else [ranks[rs[-1]], ranks[rs[len(rs) // 2 - 1]]]
        for x in pick:
            if len(items) < n_items and x not in items:
                items.append(x)
                if reg not in used:
                    used.append(reg)
        if len(items) >= n_items:
            break
    info["slots(register,rank)"] = {repr(x): slots[x] for x in items}
    # saturators: (1) high ranks in every register NOT used by the alphabet, nothing in the used ones
    S = cands("int", nsat, 100_000)
    best_hi, best_lo = {}, {}
    for y in S:
        sl = slot(y)
        if sl is None:
            continue
        i, r = sl
        if i not in best_hi or r > best_hi[i][1]:
            best_hi[i] = (y, r)
        if i not in best_lo or r < best_lo[i][1]:
            best_lo[i] = (y, r)
    sat_hi = [best_hi[i][0] for i in range(m) if i in best_hi and i not in used]
    sat_lo = [best_lo[i][0] for i in range(m) if i in best_lo]
    info["saturators"] = {"high-rank-elsewhere": len(sat_hi), "rank-1-everywhere": len(sat_lo)}
    return items, [], info, [sat_hi, sat_lo]


# ---------------------------------------------------------------------------
# Merkle tree
# ---------------------------------------------------------------------------
def merkle_build(mapping, how):
    """mapping: tuple of (key, value) pairs.  how: 'build' | 'update' | 'churn'."""
    d = dict(mapping)
    if how == "build":
        return MerkleTree.build(d), 1
    t = MerkleTree()
    ops = 0
    if how == "update":
        for k in sorted(d, reverse=True):
            t.update(k, d[k])
            ops += 1
        return t, ops
    # churn: start from every key holding a stale value, overwrite / remove down to the target
    keys = sorted({k for k, _ in mapping} | set(how[1]))
    t = MerkleTree.build({k: "stale" for k in keys})
    ops += 1
    for k in keys:
        if k in d:
            t.update(k, d[k])
        else:
            t.remove(k)
        ops += 1
    return t, ops


def merkle_histories(mapping, universe):
    """Every construction history (JSON-able description) of ``mapping`` over the key universe:
    bulk build from every insertion order of the keys, optionally followed by one
    update-existing / remove / update-new, and pure update sequences in every order."""
    import itertools
    d = dict(mapping)
    ks = list(d)
    out = []
    for perm in itertools.permutations(ks):
        out.append(["build", list(perm)])
        out.append(["update-only", list(perm)])
        for k in ks:
            out.append(["build-update-existing", list(perm), k])
    for x in universe:
        if x not in d:
            for perm in itertools.permutations(ks + [x]):
                out.append(["build-remove", list(perm), x])
    for k in ks:
        for perm in itertools.permutations([y for y in ks if y != k]):
            out.append(["build-update-new", list(perm), k])
    return out


def merkle_construct(mapping, desc):
    """Build the tree of ``mapping`` through the history ``desc``.  Returns (tree, library calls)."""
    d = dict(mapping)
    kind, perm = desc[0], desc[1]
    if kind == "build":
        return MerkleTree.build({k: d[k] for k in perm}), 1
    if kind == "update-only":
        t = MerkleTree()
        for k in perm:
            t.update(k, d[k])
        return t, len(perm)
    if kind == "build-update-existing":
        k = desc[2]
        t = MerkleTree.build({y: ("stale" if y == k else d[y]) for y in perm})
        t.update(k, d[k])
        return t, 2
    if kind == "build-remove":
        x = desc[2]
        t = MerkleTree.build({y: (d[y] if y in d else "extra") for y in perm})
        t.remove(x)
        return t, 2
    if kind == "build-update-new":
        k = desc[2]
        t = MerkleTree.build({y: d[y] for y in perm})
        t.update(k, d[k])
        return t, 2
    raise ValueError(desc)


def merkle_check(ma, mb, ta, tb):
    """Oracle for one ordered pair.  Returns (violations, nontrivial)."""
    da, db = dict(ma), dict(mb)
    ranges = ta.diff(tb)
    v = []
    equal = da == db
    differing = sorted(k for k in set(da) | set(db) if (k in da) != (k in db) or da.get(k) != db.get(k))
    if equal and ranges:
        v.append(("MerkleTree/diff-nonempty-for-equal-maps/pair", f"maps equal ({da}) but diff() = {ranges!r}"))
    if not equal and not ranges:
        v.append(("MerkleTree/diff-empty-for-different-maps/pair",
                  f"maps differ on {differing} but diff() is empty: {da} vs {db}"))
    if not equal and ranges:
        for k in differing:
            if not any(r.contains(k) for r in ranges):
                shape = "same-keys" if set(da) == set(db) else "different-key-sets"
                v.append((f"MerkleTree/diff-misses-differing-key/{shape}",
                          f"key {k!r} differs ({da.get(k, '<absent>')!r} vs {db.get(k, '<absent>')!r}) "
                          f"but no range of diff()={ranges!r} contains it"))
                break
    return v, (not equal and len(da) != len(db))

"""C18 part A — logical clocks vs. the history's own happened-before relation.

Every history of <= L steps among n nodes over

    ('l', i)       local event at node i          (tick() / HLC now())
    ('s', i)       send at node i                 (send(); the payload goes in flight)
    ('r', j, k)    node j receives in-flight message #k (any, so messages reorder; k's sender != j)

is executed on the real clock objects (depth-first over histories, every prefix is itself a
history and is checked when its last event is added).  For the hybrid clock every step is preceded
by an advance of true time by dt in {0, 1} tick (label gets a 4th/3rd field) and each node reads
its physical time through a real ``NodeClock`` (identity / FixedSkew(+-) / LinearDrift) over one
real ``Clock`` object.

happened-before is computed from the history itself: past(e) = past(previous event of the same
node) + that event, plus for a receive: past(send event) + the send event (bit masks over event
indices) - no clock is consulted.

Oracle (statement: "if a happened before b then the Lamport and hybrid-logical timestamps of a
are smaller than those of b, and vector clocks order a before b exactly when a happened before
b"), evaluated for the new event b against every earlier event a of the history:

    Lamport  a->b  =>  time(a) < time(b)
    HLC      a->b  =>  ts(a) < ts(b)                      (HLCTimestamp's own total order)
    Vector   a->b <=>  vc(a).happened_before(vc(b));  never vc(b).happened_before(vc(a)) (b is
             later in the history so b->a is impossible); is_concurrent(a,b) <=> a,b unordered

    Vector   merge (documented "element-wise max (no increment) ... a combined view"): for the new event b
             and every earlier event a the merged views a.merge(b) and b.merge(a) must both be the
             component-wise maximum of the two snapshots (a missing component is 0), i.e. merge is
             commutative; each operand must be ordered before-or-equal to the view and never after it
             (the library's own happened_before on the returned clock); a.merge(a) == a; and over the
             current clocks of three nodes (x+y)+z == x+(y+z) (one rotation per event, by its index).  The clocks are built knowing all ids
             ('full'), only their own id ('self'), their own and the next node's id ('partial') or only the
             OTHER ids ('others'), so operands with different key sets are the common case.

Timestamps: Lamport = ``clock.time`` after the step; vector = a deep copy of the clock after the
step; HLC = the value returned by now()/send(); for a receive (which returns nothing) either the
value of an immediately following now() (mode 'now', public API only) or the clock's stored last
timestamp (mode 'last', private ``_last``; silently falls back to mode 'now' when absent).
"""
from __future__ import annotations

import copy
import time

from mc.harness import Duration, Instant

from happysimulator.core.clock import Clock
from happysimulator.core.logical_clocks import HybridLogicalClock, LamportClock, VectorClock
from happysimulator.core.node_clock import FixedSkew, LinearDrift, NodeClock

TICK = 2  # ns of true time per tick (so that +-50% drift is an integer number of ns)
T0 = 2  # true time (ticks) of the first step: the -skew node then reads 0 = the HLC's initial physical
SKEW_TICKS = 2

NAMES = ["n0", "n1", "n2", "n3", "n4"]


def _model(kind):
    if kind == "id":
        return NodeClock(None)
    if kind == "+skew":
        return NodeClock(FixedSkew(Duration(SKEW_TICKS * TICK)))
    if kind == "-skew":
        return NodeClock(FixedSkew(Duration(-SKEW_TICKS * TICK)))
    if kind == "fast":
        return NodeClock(LinearDrift(rate_ppm=500_000))
    if kind == "slow":
        return NodeClock(LinearDrift(rate_ppm=-500_000))
    raise AssertionError(kind)


class Histories:
    """Depth-first enumeration of all histories for one configuration.

    cfg = dict(kind='lamport'|'vector'|'hlc', n=2|3, L=steps, variant=..., prefix=[labels])
      lamport variant: tuple of initial counter values per node
      vector  variant: 'full' (every node knows all ids) | 'self' (only itself) | 'partial' (itself + next) | 'others'
      hlc     variant: (models per node, rx mode 'now'|'last')   models: 'id','wall','+skew','-skew','fast','slow'
    """

    def __init__(self, cfg):
        self.cfg = cfg
        self.kind = cfg["kind"]
        self.n = cfg["n"]
        self.L = cfg["L"]
        self.variant = cfg["variant"]
        self.ids = NAMES[: self.n]
        self.base = Clock(Instant(T0 * TICK))
        self.rx_mode = "now"
        # 'sr' alphabet (HLC): a local event is a send whose message is never received - HLC.send() is
        # documented "Equivalent to now()"; in rx mode 'last' the send step calls now() and embeds the
        # returned timestamp in the message (the usage shown in the module docstring), in mode 'now'
        # it calls send(), so both entry points are driven.
        self.with_local = "l" in cfg.get("alphabet", "lsr")
        if self.kind == "hlc":
            self.models, self.rx_mode = self.variant
            self.nodeclocks = []
            for m in self.models:
                if m == "wall":
                    self.nodeclocks.append(None)
                else:
                    nc = _model(m)
                    nc.set_clock(self.base)
                    self.nodeclocks.append(nc)
        self.clocks = [self._fresh(i) for i in range(self.n)]
        self.logs = [[] for _ in range(self.n)]  # per node: (op, payload, true_ns)
        self.events = []  # (node, ts, pastmask, kind)
        self.last_ev = [-1] * self.n  # index of the node's latest event
        self.inflight = []  # (sender, payload, send_event_index)
        self.now_ticks = T0
        self.labels = []
        # counters
        self.transitions = 0
        self.histories = 0  # maximal histories (length L) = complete executions
        self.prefixes = 0  # all histories (every prefix is one)
        self.pairs_hb = 0
        self.pairs_conc = 0
        self.nontrivial = 0
        self.outcomes = set()
        self.viol = {}
        self.samples = []
        self.reorder_seen = 0
        self.merges = 0
        self.check_merge = self.kind == "vector" and hasattr(VectorClock, "merge")

    # ------------------------------------------------------------------
    def _fresh(self, i):
        if self.kind == "lamport":
            return LamportClock(self.variant[i]) if self.variant[i] else LamportClock()
        if self.kind == "vector":
            if self.variant == "full":
                return VectorClock(self.ids[i], list(self.ids))
            if self.variant == "partial":
                return VectorClock(self.ids[i], [self.ids[i], self.ids[(i + 1) % self.n]])
            if self.variant == "others":
                return VectorClock(self.ids[i], [x for x in self.ids if x != self.ids[i]])
            return VectorClock(self.ids[i], [self.ids[i]])
        nc = self.nodeclocks[i]
        if nc is None:
            base = self.base
            return HybridLogicalClock(self.ids[i], wall_time=lambda: base.now)
        return HybridLogicalClock(self.ids[i], physical_clock=nc)

    def _do(self, clock, op, payload):
        """One real clock operation; returns (timestamp of the event, payload produced or None)."""
        k = self.kind
        if k == "lamport":
            if op == "l":
                clock.tick()
                return clock.time, None
            if op == "s":
                p = clock.send()
                return clock.time, p
            clock.receive(payload)
            return clock.time, None
        if k == "vector":
            if op == "l":
                clock.tick()
                return None, None
            if op == "s":
                return None, clock.send()
            clock.receive(payload)
            return None, None
        # hlc
        if op == "l":
            return clock.now(), None
        if op == "s":
            ts = clock.now() if (self.rx_mode == "last" and not self.with_local) else clock.send()
            return ts, ts
        if self.rx_mode == "last" and hasattr(payload, "to_dict") and hasattr(type(payload), "from_dict"):
            # the message carries the timestamp as a plain dict ("for embedding in event contexts")
            payload = type(payload).from_dict(payload.to_dict())
        clock.receive(payload)
        if self.rx_mode == "last":
            ts = getattr(clock, "_last", None)
            if ts is not None and hasattr(ts, "physical_ns"):
                return ts, None
        return clock.now(), None

    def _rebuild(self, i):
        c = self._fresh(i)
        if self.kind == "hlc":
            for (op, payload, t) in self.logs[i]:
                self.base.update(Instant(t))
                self._do(c, op, payload)
        else:
            for (op, payload, _t) in self.logs[i]:
                self._do(c, op, payload)
        self.clocks[i] = c

    # ------------------------------------------------------------------
    def enabled(self):
        out = []
        for i in range(self.n):
            if self.with_local:
                out.append(("l", i))
            out.append(("s", i))
        for k, (snd, _p, _e) in enumerate(self.inflight):
            for j in range(self.n):
                if j != snd:
                    out.append(("r", j, k))
        if self.kind == "hlc":
            return [lab + (dt,) for lab in out for dt in (0, 1)]
        return out

    def apply(self, lab):
        """Apply one step on the real clocks; returns an undo record."""
        op, i = lab[0], lab[1]
        dt = 0
        if self.kind == "hlc":
            dt = lab[-1]
            self.now_ticks += dt
            self.base.update(Instant(self.now_ticks * TICK))
        payload = None
        past = 0
        le = self.last_ev[i]
        if le >= 0:
            past = self.events[le][2] | (1 << le)
        removed = None
        if op == "r":
            k = lab[2]
            removed = (k, self.inflight.pop(k))
            snd, payload, se = removed[1]
            past |= self.events[se][2] | (1 << se)
            if k > 0:
                self.reorder_seen += 1
        ts, produced = self._do(self.clocks[i], op, payload)
        self.transitions += 1
        if self.kind == "vector":
            ts = copy.deepcopy(self.clocks[i])
        self.logs[i].append((op, payload, self.now_ticks * TICK))
        idx = len(self.events)
        self.events.append((i, ts, past, op))
        if op == "s":
            self.inflight.append((i, produced, idx))
        self.last_ev[i] = idx
        self.labels.append(lab)
        return (i, le, removed, op == "s", dt)

    def undo(self, rec):
        i, le, removed, sent, dt = rec
        self.labels.pop()
        self.events.pop()
        self.last_ev[i] = le
        if sent:
            self.inflight.pop()
        if removed is not None:
            self.inflight.insert(removed[0], removed[1])
        self.logs[i].pop()
        self._rebuild(i)
        if self.kind == "hlc":
            self.now_ticks -= dt
            self.base.update(Instant(self.now_ticks * TICK))

    # ------------------------------------------------------------------
    def check_last(self):
        """Oracle for the newest event against all earlier ones.  Returns list of (fp, desc)."""
        out = []
        b = len(self.events) - 1
        nb, tb, pb, opb = self.events[b]
        kind = self.kind
        for a in range(b):
            na, ta, _pa, opa = self.events[a]
            hb = bool((pb >> a) & 1)
            if hb:
                self.pairs_hb += 1
            else:
                self.pairs_conc += 1
            if kind == "vector":
                fwd = ta.happened_before(tb)
                bwd = tb.happened_before(ta)
                conc = ta.is_concurrent(tb) if hasattr(ta, "is_concurrent") else (not fwd and not bwd)
                if hb and not fwd:
                    out.append((f"VectorClock/hb-implies-vc-less/{_shape(opa, opb, na == nb)}",
                                f"event #{a} happened before #{b} but vc#{a}={ta.snapshot()} is not "
                                f"happened_before vc#{b}={tb.snapshot()}"))
                if not hb and fwd:
                    out.append((f"VectorClock/vc-less-implies-hb/{_shape(opa, opb, na == nb)}",
                                f"events #{a} and #{b} are concurrent in the history but vc#{a}={ta.snapshot()} "
                                f"happened_before vc#{b}={tb.snapshot()}"))
                if bwd:
                    out.append((f"VectorClock/vc-less-implies-hb/later-before-earlier/{_shape(opa, opb, na == nb)}",
                                f"event #{b} occurs after #{a} in the history but vc#{b}={tb.snapshot()} "
                                f"happened_before vc#{a}={ta.snapshot()}"))
                if conc != (not fwd and not bwd) or (conc and hb):
                    out.append((f"VectorClock/is-concurrent/{_shape(opa, opb, na == nb)}",
                                f"is_concurrent(#{a},#{b})={conc} but history hb={hb}, "
                                f"vc#{a}={ta.snapshot()} vc#{b}={tb.snapshot()}"))
                if self.check_merge:
                    out += self._check_merge_pair(a, ta, b, tb, hb)
            elif hb:
                if not ta < tb:
                    comp = "LamportClock" if kind == "lamport" else "HybridLogicalClock"
                    out.append((f"{comp}/hb-implies-ts-less/{_shape(opa, opb, na == nb)}",
                                f"event #{a} happened before #{b} but ts#{a}={ta} is not smaller than ts#{b}={tb}"))
        if kind == "vector" and self.check_merge:
            out += self._check_merge_self(b, tb)
        return out

    # -- VectorClock.merge ------------------------------------------------------------------
    def _check_merge_pair(self, a, ta, b, tb, hb):
        out = []
        ra, rb = ta.snapshot(), tb.snapshot()
        sa, sb = _nz(ra), _nz(rb)
        want = dict(sa)
        for k, v in sb.items():
            if v > want.get(k, 0):
                want[k] = v
        mab = ta.merge(tb)
        mba = tb.merge(ta)
        self.merges += 2
        gab, gba = _nz(mab.snapshot()), _nz(mba.snapshot())
        if gab != want or gba != want:
            keys = "same-keys" if set(ra) == set(rb) else "different-keys"
            for got, order in ((gab, f"vc#{a}.merge(vc#{b})"), (gba, f"vc#{b}.merge(vc#{a})")):
                if got != want:
                    out.append((f"VectorClock/merge/element-wise-max/{keys}",
                                f"{order} = {got}, the component-wise maximum of {sa} and {sb} is {want}"))
            if gab != gba:
                out.append((f"VectorClock/merge/commutative/{keys}",
                            f"vc#{a}.merge(vc#{b}) = {gab} but vc#{b}.merge(vc#{a}) = {gba} "
                            f"(vc#{a}={sa}, vc#{b}={sb})"))
        # the combined view is an upper bound of both operands in the library's own order
        # (one of the two views per pair, alternating)
        m, ms = (mab, gab) if (a + b) % 2 else (mba, gba)
        for t, st_, idx in ((ta, sa, a), (tb, sb, b)):
            below = t.happened_before(m)
            above = m.happened_before(t)
            if above or (not below and ms != st_):
                keys = "same-keys" if set(ra) == set(rb) else "different-keys"
                mn = f"vc#{a}.merge(vc#{b})" if (a + b) % 2 else f"vc#{b}.merge(vc#{a})"
                out.append((f"VectorClock/merge/upper-bound/{keys}",
                            f"vc#{idx}={st_} is not ordered before-or-equal to the combined view {mn}={ms} "
                            f"(happened_before: operand<view={below}, view<operand={above})"))
        return out

    def _check_merge_self(self, b, tb):
        out = []
        sb = _nz(tb.snapshot())
        mm = tb.merge(tb)
        self.merges += 1
        if _nz(mm.snapshot()) != sb:
            out.append(("VectorClock/merge/idempotent/same-keys",
                        f"vc#{b}.merge(vc#{b}) = {_nz(mm.snapshot())} but vc#{b} = {sb}"))
        if self.n >= 3:
            cur = [self.clocks[i] for i in range(self.n)]
            snaps = [_nz(c.snapshot()) for c in cur]
            keys = "same-keys" if len({frozenset(c.snapshot()) for c in cur[:3]}) == 1 else "different-keys"
            for (x, y, z) in (((0, 1, 2), (1, 2, 0), (2, 0, 1))[b % 3],):
                left = cur[x].merge(cur[y]).merge(cur[z])
                right = cur[x].merge(cur[y].merge(cur[z]))
                self.merges += 4
                want = {k: max(snaps[x].get(k, 0), snaps[y].get(k, 0), snaps[z].get(k, 0))
                        for k in set(snaps[x]) | set(snaps[y]) | set(snaps[z])}
                gl, gr = _nz(left.snapshot()), _nz(right.snapshot())
                if gl != gr or gl != want:
                    out.append((f"VectorClock/merge/associative/{keys}",
                                f"(x.merge(y)).merge(z) = {gl}, x.merge(y.merge(z)) = {gr}, component-wise maximum "
                                f"= {want} for the current clocks x={snaps[x]}, y={snaps[y]}, z={snaps[z]}"))
        return out

    def record(self, fp, desc):
        if fp not in self.viol or len(self.viol[fp][1]["labels"]) > len(self.labels):
            self.viol[fp] = (desc, {"driver": "clocks", "cfg": _cfg_json(self.cfg), "labels": list(self.labels),
                                    "timestamps": [_ts_repr(e[1]) for e in self.events]})

    def _finish_history(self):
        self.histories += 1
        # non-trivial rule: the history contains a receive AND two events that are concurrent
        has_rx = any(e[3] == "r" for e in self.events)
        if has_rx:
            n = len(self.events)
            full = True
            for b in range(1, n):
                if self.events[b][2] != (1 << b) - 1:
                    full = False
                    break
            if not full:
                self.nontrivial += 1
        if len(self.outcomes) < 50_000:
            self.outcomes.add(hash(tuple(_ts_key(e[1]) for e in self.events)))
        if len(self.samples) < 1 and has_rx and self.histories % 1013 == 7:
            self.samples.append({"cfg": _cfg_json(self.cfg), "labels": list(self.labels),
                                 "timestamps": [_ts_repr(e[1]) for e in self.events]})

    def dfs(self, depth):
        if depth >= self.L:
            self._finish_history()
            return
        for lab in self.enabled():
            rec = self.apply(lab)
            self.prefixes += 1
            for fp, desc in self.check_last():
                self.record(fp, desc)
            self.dfs(depth + 1)
            self.undo(rec)

    def run(self):
        for lab in self.cfg.get("prefix", []):
            self.apply(tuple(lab))
            self.prefixes += 1
            for fp, desc in self.check_last():
                self.record(fp, desc)
        self.dfs(len(self.cfg.get("prefix", [])))


def _shape(opa, opb, same_node):
    nm = {"l": "local", "s": "send", "r": "receive"}
    return f"{nm[opa]}-to-{nm[opb]}/{'same-node' if same_node else 'cross-node'}"


def _nz(snap):
    """A vector snapshot without its zero components (a missing component is 0)."""
    return {k: v for k, v in snap.items() if v}


def _ts_repr(ts):
    if isinstance(ts, VectorClock):
        return ts.snapshot()
    if hasattr(ts, "physical_ns"):
        return [ts.physical_ns, ts.logical, ts.node_id]
    return ts


def _ts_key(ts):
    if isinstance(ts, VectorClock):
        return tuple(sorted(ts.snapshot().items()))
    if hasattr(ts, "physical_ns"):
        return (ts.physical_ns, ts.logical, ts.node_id)
    return ts


def _cfg_json(cfg):
    return {k: (list(v) if isinstance(v, tuple) else v) for k, v in cfg.items()}


def prefixes_of(cfg, depth):
    """All label prefixes of the given depth (the independent sub-spaces handed to the pool)."""
    h = Histories(dict(cfg, prefix=[]))
    out = []

    def rec(d):
        if d == depth:
            out.append(list(h.labels))
            return
        for lab in h.enabled():
            r = h.apply(lab)
            rec(d + 1)
            h.undo(r)

    rec(0)
    return out


def work(cfg):
    t0 = time.time()
    h = Histories(cfg)
    h.run()
    return {"transitions": h.transitions, "histories": h.histories, "prefixes": h.prefixes,
            "pairs_hb": h.pairs_hb, "pairs_conc": h.pairs_conc, "nontrivial": h.nontrivial,
            "outcomes": h.outcomes, "viol": h.viol, "samples": h.samples, "reorder": h.reorder_seen, "merges": h.merges,
            "cpu_s": time.time() - t0}


def thaw(x):
    return tuple(thaw(i) for i in x) if isinstance(x, list) else x


def replay(rep):
    cfg = dict(rep["cfg"])
    v = cfg["variant"]
    cfg["variant"] = thaw(v) if isinstance(v, list) else v
    cfg["prefix"] = []
    h = Histories(cfg)
    print(f"clock history replay: kind={cfg['kind']} nodes={cfg['n']} variant={cfg['variant']}")
    bad = []
    for lab in rep["labels"]:
        lab = thaw(lab)
        h.apply(lab)
        e = h.events[-1]
        past = [a for a in range(len(h.events) - 1) if (e[2] >> a) & 1]
        print(f"  #{len(h.events) - 1} {lab}: node={h.ids[e[0]]} true_t={h.now_ticks * TICK}ns "
              f"ts={_ts_repr(e[1])} happened-after={past}")
        for fp, desc in h.check_last():
            print(f"    !! {fp}: {desc}")
            bad.append(fp)
    return bad

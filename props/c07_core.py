"""C07 core: component-registry harness, arrival-pattern enumeration, scenario runner, oracle.

A *registry driver* (subclass of ``Drv``) closes ONE library component (or a small family that
only makes sense together) with harness entities:

    class MutexDrv(Drv):
        family = "sync"
        covers = ("Mutex",)              # library classes this driver builds and exercises
        ops = ("acquire",)               # request alphabet; the op is also the request's event type
        def build(self, cfg):            # cfg.L = latency in seconds (0.0 in the 'zero' config)
            self.m = Mutex("m")
            return [self.m]              # entities to register (harness caller/out are added)
        def request(self, i, op):        # runs INSIDE Caller.handle_event at the arrival instant
            yield from self.m.acquire()
            yield self.cfg.hold
            return self.m.release()

Every scenario = (driver, configuration, arrival pattern) is executed in a fresh, real
``Simulation`` with an explicit end_time, through the public control surface with a delivery
horizon and a same-instant storm guard.  The verdict uses public behaviour only:

  (a) the engine's own "Time travel detected" warning           -> <Component>/past-event/<type>
  (b) more than B = 50*(requests+10) deliveries at one instant  -> <Component>/frozen-clock/<type>
  (c) max_events deliveries with the clock at one instant       -> same as (b)

An *advisory* wrapper around the private heap's push/pop attributes the emitter for the
description; it disables itself when the private attribute is missing and never decides.
"""
from __future__ import annotations

import itertools
import re
import signal
import time
import uuid

from mc.evidence import digest
from mc.harness import (Entity, Event, Instant, Simulation, TimeTravelWatch,  # noqa: F401
                        owned_random, run_guarded)

from happysimulator.core.temporal import Duration  # noqa: F401
from happysimulator.distributions.constant import ConstantLatency  # noqa: F401

NS = 1_000_000_000
D_S = 0.5          # grid step d (seconds, dyadic -> exact nanoseconds)
T0_S = 1.0         # first arrival instant
END_S = 12.0       # explicit end_time of every scenario
MAX_EVENTS = 20000
WALL_LIMIT_S = 30  # safety net (CPU seconds of this process): a handler that loops without yielding must not hang the checker


class Cfg:
    """One constructor configuration.  ``L`` is THE latency knob (service time, link latency,
    disk latency, set-up latency ...); ``hold`` is how long a harness worker keeps a capacity."""

    def __init__(self, name, L, t0_ns=int(T0_S * NS), d_ns=int(D_S * NS), per_table=None, reduced=False, pair=None, via=None):
        self.via = via                  # None | "prep" | "hop": how requests with offset > 0 reach the component
        self.pair = pair                # (period, interval) of "long timer vs periodic timer" pairs, see PI()
        self.per_table = per_table      # None: timer periods as written (dyadic); else nominal -> decimal value
        self.reduced = reduced          # timer-centric configuration: only a few arrival patterns
        self.name = name
        self.L = float(L)
        self.t0_ns = t0_ns
        self.d_ns = d_ns
        self.d = d_ns / NS
        self.hold = float(L)
        self.zero = (L == 0)

    def per(self, x):
        """Timer period / timeout / TTL used by a driver for the nominal (dyadic) value ``x``."""
        if self.per_table is None or x <= 0:
            return x
        if x in self.per_table:
            return self.per_table[x]
        v = round(x * 0.9, 1)
        if (v * 4) == int(v * 4):       # keep it non-dyadic
            v = round(v + 0.1, 1)
        return v

    def arrival_ns(self, off):
        return self.t0_ns + off * self.d_ns

    def lat(self, mult=1.0):
        return ConstantLatency(self.L * mult)

    def __repr__(self):
        return f"Cfg({self.name}, L={self.L})"


_TA = {0.25: 0.1, 0.5: 0.3, 0.75: 0.7, 1.0: 0.9, 1.25: 1.1, 1.5: 1.3, 2.0: 1.7, 2.5: 2.1,
       3.0: 2.3, 6.0: 5.3}
_TB = {0.25: 0.3, 0.5: 0.6, 0.75: 0.7, 1.0: 1.1, 1.25: 1.3, 1.5: 1.4, 2.0: 1.9, 2.5: 2.3,
       3.0: 2.9, 6.0: 5.9}
CFGS = {
    "zero": Cfg("zero", 0.0),        # every latency 0: cascades collapse on one instant
    "eq": Cfg("eq", D_S),            # latency == grid step: arrivals land ON completion instants
    "long": Cfg("long", 2.5 * D_S),  # latency spans all arrivals: every request overlaps
    "short": Cfg("short", D_S / 2),  # latency < grid step (thorough)
    # hold time == arrival spacing, and a request with offset k > 0 is not a pre-scheduled event but a process that
    # started at t0 and reaches the component through a continuation due exactly at t0 + k*d: "a third party whose
    # attempt lands exactly on a release instant while a waiter is parked".  prep: that continuation was created
    # BEFORE the holder's release continuation (runs first at the tie); hop: created AFTER it (runs between the
    # release and the resumption of the waiter it woke).  Run for the drivers marked ``contention = True``.
    "eq_prep": Cfg("eq_prep", D_S, via="prep"),
    "eq_hop": Cfg("eq_hop", D_S, via="hop"),
    # millisecond grid 1.001 s, 1.003 s, 1.005 s ...: instants t for which the float round trip
    # Instant.from_seconds(t.to_seconds()) lands 1 ns BEFORE t (a component that re-derives "now" through
    # float seconds emits into the past exactly there)
    "odd_zero": Cfg("odd_zero", 0.0, 1_001_000_000, 2_000_000),
    "odd_eq": Cfg("odd_eq", 0.002, 1_001_000_000, 2_000_000),
    # timer-centric configurations: every period / interval / timeout / TTL of the drivers (wrapped in P()/R()) takes a
    # NON-DYADIC decimal value (0.1, 0.3, 0.7 ... resp. 0.3, 0.6, 0.7 ...), i.e. one that is not exact in binary
    # floating point, latencies and the arrival grid are decimal too, and the 12 s horizon spans >= 10 periods of every
    # periodic timer.  Only a few arrival patterns are run (the subject here is the timers, not the contention).
    # Each also fixes the relation of a driver's (long timer, periodic timer) pair - stage period vs evaluation
    # interval, cooldown vs evaluation interval, TTL vs sweep, election timeout vs heartbeat ... (see PI()):
    #   dec_a 0.7/0.1 and dec_b 1.2/0.4: period a decimal "multiple" of the interval (not one in floating point),
    #   dec_c 1.0/0.3 and dec_d 1.3/0.7: period NOT a multiple of the interval, dec_e 0.3/0.7: interval > period.
    "dec_a": Cfg("dec_a", 0.1, 1_000_000_000, 100_000_000, reduced=True, pair=(0.7, 0.1), per_table=_TA),
    "dec_b": Cfg("dec_b", 0.3, 700_000_000, 300_000_000, reduced=True, pair=(1.2, 0.4), per_table=_TB),
    "dec_c": Cfg("dec_c", 0.1, 1_000_000_000, 100_000_000, reduced=True, pair=(1.0, 0.3), per_table=_TA),
    "dec_d": Cfg("dec_d", 0.3, 700_000_000, 300_000_000, reduced=True, pair=(1.3, 0.7), per_table=_TB),
    "dec_e": Cfg("dec_e", 0.1, 1_000_000_000, 100_000_000, reduced=True, pair=(0.3, 0.7), per_table=_TA),
}
_CUR = {"cfg": None}


def P(x):
    """Period knob: the value a driver uses for a nominal timer period / timeout / TTL ``x`` (seconds) in the
    configuration of the scenario being built (identity except in the decimal-timer configurations)."""
    c = _CUR["cfg"]
    return c.per(x) if c is not None else x


def PI(period, interval):
    """(long timer, periodic timer) pair of a driver: the values as written, except in the decimal configurations,
    which fix the pair (and thereby the relation: multiple / not a multiple / interval longer than the period)."""
    c = _CUR["cfg"]
    if c is not None and c.pair is not None:
        return c.pair
    return (period, interval)


def R(x):
    """Rate knob: rate whose period is P(1/x)."""
    return 1.0 / P(1.0 / x)


TIER = {
    "quick": {"cfgs": ["zero", "eq", "eq_prep", "eq_hop", "long", "odd_zero", "odd_eq", "dec_a", "dec_b", "dec_c", "dec_d", "dec_e"],
              "max_req": 3,
              "offsets": [0, 1, 2]},
    "thorough": {"cfgs": ["zero", "short", "eq", "eq_prep", "eq_hop", "long", "odd_zero", "odd_eq", "dec_a", "dec_b", "dec_c", "dec_d",
                          "dec_e"], "max_req": 4,
                 "offsets": [0, 1, 2, 3]},
}


def reduced_patterns(ops, max_req, offsets):
    """The few patterns of a timer-centric configuration: staggered and simultaneous arrivals, every op used."""
    n = max(min(max_req, 3), min(len(ops), max_req))
    stag = tuple((offsets[min(i, len(offsets) - 1)], ops[i % len(ops)]) for i in range(n))
    simul = tuple((offsets[0], ops[(i + 1) % len(ops)]) for i in range(n))
    late = ((offsets[-1], ops[0]),)
    out = []
    for p in (stag, simul, late):
        if p not in out:
            out.append(p)
    return out


def patterns(ops, max_req, offsets, cap_ops=None):
    """Every arrival pattern: non-decreasing offset tuples of length 1..max_req (simultaneous
    arrivals included; a superset of "<=3 requests over {0,0,d,2d}") x every op assignment."""
    out = []
    for n in range(1, max_req + 1):
        for offs in itertools.combinations_with_replacement(offsets, n):
            for opsel in itertools.product(ops, repeat=n):
                out.append(tuple(zip(offs, opsel)))
    return out


# ----------------------------------------------------------------------------------------
# harness entities
# ----------------------------------------------------------------------------------------
class Out(Entity):
    """Terminal recorder: whatever a component sends downstream ends here."""

    def __init__(self, name="out"):
        super().__init__(name)
        self.log = []

    def handle_event(self, event):
        self.log.append((self.now.nanoseconds, event.event_type))
        return None


class Backend(Entity):
    """A harness 'server': takes cfg.L to handle anything, then resolves a reply future found in
    the context (keys reply_future / reply / future) and forwards to ``out``.  ``fail_first`` makes
    the first k calls raise/flag failure where the component under test expects exceptions."""

    def __init__(self, name, L, out=None, reply_value="ok"):
        super().__init__(name)
        self.L = L
        self.out = out
        self.reply_value = reply_value
        self.calls = 0

    def handle_event(self, event):
        self.calls += 1
        return self._serve(event)

    def _serve(self, event):
        yield self.L
        ctx = event.context
        for k in ("reply_future", "reply", "future"):
            f = ctx.get(k) if isinstance(ctx, dict) else None
            if f is None and isinstance(ctx, dict):
                f = ctx.get("metadata", {}).get(k)
            if f is not None and hasattr(f, "resolve") and not getattr(f, "is_resolved", False):
                f.resolve(self.reply_value)
        if self.out is not None:
            return [Event(time=self.now, event_type=event.event_type, target=self.out, context=event.context)]
        return None


class Caller(Entity):
    """Runs ``driver.request(i, op)`` inside its handler at the arrival instant (so generator
    APIs such as ``yield from store.get(k)`` execute under the real engine)."""

    def __init__(self, h):
        super().__init__("caller")
        self.h = h

    def handle_event(self, event):
        md = (event.context or {}).get("metadata") or {}
        if "c07_i" not in md:
            return self.h.drv.on_caller_event(event)
        i, op = md["c07_i"], md["c07_op"]
        via, off = md.get("c07_via"), md.get("c07_off", 0)
        if via and off > 0:
            return self._via(i, op, via, off * self.h.drv.cfg.d)
        return self._start(i, op)

    def _start(self, i, op):
        h = self.h
        h.arrived.append((self.now.nanoseconds, i))
        if h.open_reqs:
            h.overlap = True
        r = h.drv.request(i, op)
        if hasattr(r, "send"):
            return self._wrap(i, r)
        h.completed.append(i)
        return r

    def _via(self, i, op, via, delay_s):
        """The request is a process that started at t0 and reaches the component exactly ``delay_s`` later."""
        if via == "hop":
            for _ in range(4):      # pushes the creation of the due-at-t0+delay continuation behind the holders'
                yield 0.0
        yield delay_s
        r = self._start(i, op)
        if hasattr(r, "send"):
            r = yield from r
        return r

    def _wrap(self, i, gen):
        h = self.h
        h.open_reqs.add(i)
        try:
            r = yield from gen
        finally:
            h.open_reqs.discard(i)
        h.completed.append(i)
        return r


class H:
    """Per-scenario harness handle given to the driver as ``self.h``."""

    def __init__(self, drv):
        self.drv = drv
        self.caller = Caller(self)
        self.out = Out("out")
        self.arrived = []
        self.completed = []
        self.open_reqs = set()
        self.overlap = False
        self.sim = None

    @property
    def now(self):
        return self.caller.now

    def ev(self, target, event_type, context=None, delay=0.0, daemon=False):
        """Event stamped at the CURRENT clock (+delay seconds).  Call it at the moment the event is
        returned/yielded, never before a yield."""
        t = self.caller.now + Duration.from_seconds(float(delay)) if delay else self.caller.now
        return Event(time=t, event_type=event_type, target=target, context=context, daemon=daemon)


class Drv:
    """Base class of registry drivers (see module docstring)."""
    family = "misc"
    covers: tuple = ()
    ops: tuple = ("req",)
    contention = False    # capacity / lock / pool style component: also run the eq_prep / eq_hop configurations
    cfgs = None           # restrict configurations (names) if a component has no latency knob: ("zero",)
    end_s = END_S

    def __init__(self):
        self.cfg = None
        self.h = None

    @classmethod
    def drv_name(cls):
        return cls.__name__.removesuffix("Drv")

    @classmethod
    def component(cls):
        return cls.covers[0] if cls.covers else cls.drv_name()

    def build(self, cfg):
        raise NotImplementedError

    def init(self):
        """Events to schedule before the run (clock is injected by now): start events of nodes, timers."""
        return []

    def request(self, i, op):
        raise NotImplementedError

    def on_caller_event(self, event):
        """Events that a component addresses to the harness caller (callbacks, responses)."""
        return None


# ----------------------------------------------------------------------------------------
# scenario execution
# ----------------------------------------------------------------------------------------
class _WallTimeout(Exception):
    pass


def _alarm(_s, _f):
    raise _WallTimeout()


_TT_RE = re.compile(r"event_type=(\S+)")


def norm_type(t):
    """Event types may embed ids/counters: keep fingerprints stable."""
    t = str(t)
    t = re.sub(r"[0-9a-f]{8}-[0-9a-f]{4}-[0-9a-f]{4}-[0-9a-f]{4}-[0-9a-f]{12}", "#", t)
    t = re.sub(r"\d+", "#", t)
    return t[:60]


def _is_lib_component(obj):
    return type(obj).__module__.startswith("happysimulator.components")


def _collect_instances(root_objs, limit=20000):
    """Objects reachable from the driver (attributes, lists, dicts) -> set of library class names found in
    their MROs (used to verify that a class claimed in ``covers`` was really instantiated)."""
    names = set()
    seen = set()
    stack = [(o, 0) for o in root_objs]
    skip = (Simulation, Event, H, Instant, Duration)
    while stack and len(seen) < limit:
        o, depth = stack.pop()
        if id(o) in seen:
            continue
        seen.add(id(o))
        if isinstance(o, (str, bytes, int, float, bool, type(None))) or isinstance(o, skip) or isinstance(o, type):
            continue
        if isinstance(o, (list, tuple, set, frozenset)) or type(o).__name__ == "deque":
            if depth < 6:
                stack.extend((x, depth + 1) for x in list(o)[:50])
            continue
        if isinstance(o, dict):
            if depth < 6:
                stack.extend((x, depth + 1) for x in list(o.values())[:50])
                stack.extend((x, depth + 1) for x in list(o.keys())[:50])
            continue
        lib = [c for c in type(o).__mro__ if (c.__module__ or "").startswith("happysimulator")]
        if not lib and not isinstance(o, Drv):
            continue
        for c in lib:
            names.add(c.__name__)
        if depth < 6:
            d = getattr(o, "__dict__", None)
            if d:
                stack.extend((x, depth + 1) for k, x in d.items() if k not in ("h", "_clock"))
            for sl in getattr(type(o), "__slots__", ()) or ():
                try:
                    stack.append((getattr(o, sl), depth + 1))
                except Exception:
                    pass
    return names


class Result:
    __slots__ = ("outcome", "events", "violations", "trace", "error", "overlap", "tie", "pushes",
                 "lib_deliveries", "completed", "instances", "max_same", "out_n", "past_pushes")


def run_scenario(drv_cls, cfg, pattern, *, keep_trace=False, check_instances=False):
    """Execute one scenario on the real engine.  Returns a Result."""
    res = Result()
    res.violations = []
    res.trace = []
    res.error = None
    res.instances = None
    res.past_pushes = []
    _CUR["cfg"] = cfg
    drv = drv_cls()
    h = H(drv)
    drv.cfg, drv.h = cfg, h
    n_req = len(pattern)
    storm = 50 * (n_req + 10)
    uu = itertools.count(1)
    saved_uuid4 = uuid.uuid4
    uuid.uuid4 = lambda: uuid.UUID(int=next(uu))
    # CPU-time timer (not wall clock): the verdict of a scenario must not depend on how loaded the machine is
    old_alarm = signal.signal(signal.SIGVTALRM, _alarm)
    signal.setitimer(signal.ITIMER_VIRTUAL, WALL_LIMIT_S)
    counters = {"push": 0, "lib": 0, "same": 0, "max_same": 0, "last": None}
    try:
        with owned_random(None), TimeTravelWatch() as tt:
            built = drv.build(cfg)
            if isinstance(built, dict):
                ents = list(built.get("entities", []))
                sources = list(built.get("sources", []))
                probes = list(built.get("probes", []))
            else:
                ents, sources, probes = list(built or []), [], []
            for e in (h.caller, h.out):
                if e not in ents:
                    ents.append(e)
            sim = Simulation(entities=ents, sources=sources, probes=probes,
                             end_time=Instant.from_seconds(drv.end_s))
            h.sim = sim
            init = drv.init() or []
            if init:
                sim.schedule(list(init))
            reqs = []
            for i, (off, op) in enumerate(pattern):
                via = getattr(cfg, "via", None)
                reqs.append(Event(time=Instant(cfg.arrival_ns(0 if via else off)), event_type=op, target=h.caller,
                                  context={"metadata": {"c07_i": i, "c07_op": op, "c07_via": via, "c07_off": off}}))
            sim.schedule(reqs)

            # advisory attribution (private; self-disabling)
            cur = {"ev": None}
            heap = getattr(sim, "_event_heap", None)
            clock = getattr(sim, "_clock", None)
            if heap is not None and clock is not None and hasattr(heap, "push") and hasattr(heap, "pop"):
                try:
                    o_push, o_pop = heap.push, heap.pop

                    def push(events, _o=o_push):
                        now = clock.now
                        for e in (events if isinstance(events, list) else [events]):
                            counters["push"] += 1
                            try:
                                if e.time < now:
                                    c = cur["ev"]
                                    res.past_pushes.append({
                                        "event_type": e.event_type, "event_time_ns": e.time.nanoseconds,
                                        "emitted_at_ns": now.nanoseconds,
                                        "target": type(e.target).__name__,
                                        "emitter": type(c.target).__name__ if c is not None else None,
                                        "while_handling": c.event_type if c is not None else None})
                            except Exception:
                                pass
                        return _o(events)

                    def pop(_o=o_pop):
                        e = _o()
                        cur["ev"] = e
                        return e

                    heap.push, heap.pop = push, pop
                except Exception:
                    pass

            def on_event(ev):
                t = ev.time.nanoseconds
                if t == counters["last"]:
                    counters["same"] += 1
                else:
                    counters["last"] = t
                    counters["same"] = 1
                if counters["same"] > counters["max_same"]:
                    counters["max_same"] = counters["same"]
                if _is_lib_component(ev.target):
                    counters["lib"] += 1
                if keep_trace:
                    res.trace.append((t, ev.event_type, type(ev.target).__name__,
                                      getattr(ev.target, "name", "?")))
                elif len(res.trace) < 400:
                    res.trace.append((t, norm_type(ev.event_type), type(ev.target).__name__))

            g = run_guarded(sim, max_events=MAX_EVENTS, storm=storm, on_event=on_event)
            res.outcome = g["outcome"]
            res.events = g["events"]
            comp = drv_cls.component()
            # (a) past events: the engine's public warning decides
            seen_types = set()
            for msg in tt.records:
                m = _TT_RE.search(msg)
                et = norm_type(m.group(1)) if m else "?"
                if et in seen_types:
                    continue
                seen_types.add(et)
                attr = next((p for p in res.past_pushes if norm_type(p["event_type"]) == et), None)
                desc = (f"{comp}: the engine discarded an event of type '{et}' emitted into the past "
                        f"(cfg={cfg.name}, pattern={list(pattern)})")
                if attr:
                    desc += (f"; emitted at {attr['emitted_at_ns']}ns with timestamp {attr['event_time_ns']}ns by "
                             f"{attr['emitter']} while handling '{attr['while_handling']}', target {attr['target']}")
                res.violations.append((f"{comp}/past-event/{et}", desc))
            # (b)/(c) frozen clock
            if g["outcome"] == "storm":
                types = g.get("storm_types") or {}
                dom = norm_type(max(sorted(types), key=lambda k: types[k])) if types else "?"
                res.violations.append((
                    f"{comp}/frozen-clock/{dom}",
                    f"{comp}: more than {storm} deliveries at the single instant {g['storm_at']}ns "
                    f"(dominant event type '{dom}', cfg={cfg.name}, pattern={list(pattern)}): the clock is frozen"))
            elif g["outcome"] == "horizon" and counters["same"] >= MAX_EVENTS // 2:
                res.violations.append((
                    f"{comp}/frozen-clock/horizon",
                    f"{comp}: {MAX_EVENTS} deliveries, the last {counters['same']} at one instant"))
            if check_instances:
                res.instances = _collect_instances([drv, ents])
    except _WallTimeout:
        res.outcome = "wall-timeout"
        res.events = 0
        res.error = f"no progress within {WALL_LIMIT_S}s of CPU time (handler loop without yield?)"
    except Exception as exc:  # driver or library error: reported, never a verdict
        res.outcome = "error"
        res.events = 0
        res.error = f"{type(exc).__name__}: {exc}"[:300]
    finally:
        signal.setitimer(signal.ITIMER_VIRTUAL, 0)
        signal.signal(signal.SIGVTALRM, old_alarm)
        uuid.uuid4 = saved_uuid4
    times = [t for (t, _i) in h.arrived]
    res.tie = len(times) != len(set(times))
    res.overlap = h.overlap
    res.pushes = counters["push"]
    res.lib_deliveries = counters["lib"]
    res.max_same = counters["max_same"]
    res.completed = len(h.completed)
    res.out_n = len(h.out.log)
    return res


def run_job(job):
    """One (driver, cfg) sub-space: every arrival pattern.  Returns plain-data stats."""
    (drv_cls, cfg_name, tier) = job
    tp = TIER[tier]
    cfg = CFGS[cfg_name]
    pats = (reduced_patterns(drv_cls.ops, tp["max_req"], tp["offsets"]) if cfg.reduced
            else patterns(drv_cls.ops, tp["max_req"], tp["offsets"]))
    st = {"driver": drv_cls.drv_name(), "family": drv_cls.family, "cfg": cfg_name, "exec": 0, "events": 0,
          "nontriv": 0, "outcomes": set(), "viol": {}, "errors": 0, "error_sample": None, "horizon": 0,
          "pushes": 0, "lib_deliveries": 0, "completed": 0, "requests": 0, "out": 0, "max_same": 0,
          "instances": None, "sample": None, "wall": 0.0, "outcome_kinds": {}, "flaky": [], "nondet": 0}
    t0 = time.time()
    probe = {0, len(pats) // 3, len(pats) // 2, (2 * len(pats)) // 3, len(pats) - 1}
    for k, pat in enumerate(pats):
        r = run_scenario(drv_cls, cfg, pat, check_instances=(k in probe))
        st["exec"] += 1
        st["events"] += r.events
        st["outcome_kinds"][r.outcome] = st["outcome_kinds"].get(r.outcome, 0) + 1
        if r.outcome in ("error", "wall-timeout"):
            st["errors"] += 1
            if st["error_sample"] is None:
                st["error_sample"] = {"pattern": list(pat), "error": r.error}
            continue
        if r.outcome == "horizon":
            st["horizon"] += 1
        if r.instances is not None:
            st["instances"] = sorted(set(st["instances"] or []) | (set(drv_cls.covers) & r.instances))
        st["outcomes"].add(digest((r.trace[:400], r.outcome)))
        if len(pat) >= 2 and (r.tie or r.overlap):
            st["nontriv"] += 1
        st["pushes"] += r.pushes
        st["lib_deliveries"] += r.lib_deliveries
        st["completed"] += r.completed
        st["requests"] += len(pat)
        st["out"] += r.out_n
        st["max_same"] = max(st["max_same"], r.max_same)
        for fp, desc in r.violations:
            if fp not in st["viol"]:
                # re-execute the case from its replay data before reporting it (same schedule, same verdict)
                again = run_scenario(drv_cls, cfg, pat)
                if fp not in [f for f, _d in again.violations]:
                    st["flaky"].append({"fingerprint": fp, "pattern": list(pat)})
                    continue
                st["viol"][fp] = [desc, {"driver": drv_cls.drv_name(), "cfg": cfg_name, "pattern": list(pat)}, 0]
            st["viol"][fp][2] += 1
        if k in probe and r.outcome not in ("error", "wall-timeout"):
            # determinism self-check on a slice of the schedules: identical delivery trace on re-execution
            again = run_scenario(drv_cls, cfg, pat)
            if digest((again.trace[:400], again.outcome)) != digest((r.trace[:400], r.outcome)):
                st["nondet"] += 1
        if st["sample"] is None and len(pat) == min(3, tp["max_req"]) and r.events:
            st["sample"] = {"driver": drv_cls.drv_name(), "cfg": cfg_name, "pattern": list(pat),
                            "outcome": r.outcome, "deliveries": r.events, "first_deliveries": r.trace[:6]}
    st["wall"] = time.time() - t0
    return st


# ----------------------------------------------------------------------------------------
# smoke runner for developing a family module:  python -m props.c07_core smoke props.c07_sync [Name]
# ----------------------------------------------------------------------------------------
def _smoke(argv):
    import importlib
    import logging
    logging.getLogger("happysimulator").setLevel(logging.ERROR)
    mod = importlib.import_module(argv[0])
    want = set(a for a in argv[1:] if not a.startswith("-"))
    verbose = "-v" in argv
    tier = "quick"
    for drv_cls in mod.DRIVERS:
        if want and drv_cls.drv_name() not in want:
            continue
        viol = {}
        for cfg_name in (drv_cls.cfgs or TIER[tier]["cfgs"]):
            st = run_job((drv_cls, cfg_name, tier))
            line = (f"{drv_cls.drv_name():28s} {cfg_name:8s} exec={st['exec']:4d} ev={st['events']:6d} "
                    f"push={st['pushes']:6d} lib={st['lib_deliveries']:6d} done={st['completed']}/{st['requests']} "
                    f"out={st['out']} nontriv={st['nontriv']} outc={len(st['outcomes'])} maxsame={st['max_same']} "
                    f"kinds={st['outcome_kinds']} inst={st['instances']} {st['wall']:.1f}s")
            print(line)
            if st["error_sample"]:
                print("    ERROR sample:", st["error_sample"])
            for fp, (desc, rep, n) in st["viol"].items():
                if verbose or fp not in viol:
                    print(f"    VIOLATION x{n} {fp}: {desc[:400]}")
                viol[fp] = viol.get(fp, 0) + n
        missing = set(drv_cls.covers) - set(st["instances"] or [])
        if missing:
            print(f"    !! covers not instantiated: {sorted(missing)}")


if __name__ == "__main__":
    import sys
    if len(sys.argv) >= 3 and sys.argv[1] == "smoke":
        # run through the imported module (not __main__) so that drivers and runner share one module state (P/PI)
        from props import c07_core as _core
        _core._smoke(sys.argv[2:])

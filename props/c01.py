"""C01 — every live event is delivered exactly once, in (time, creation) order.

Engine E3: exhaustive enumeration of small *programs* (pre-run schedules whose
events carry handler behaviours from a small alphabet), each executed on the
real ``Simulation`` in every loop mode; the oracle is a trace oracle over what
the harness itself created and what its entities saw delivered.
"""
from __future__ import annotations

import itertools
import time

from mc.evidence import Run, digest
from mc.harness import Entity, Event, Instant, Simulation, pmap, rotate

PID = "C01"

# ---------------------------------------------------------------------------
# program alphabet
# ---------------------------------------------------------------------------
# behaviour tuples:
#  ('nop',)
#  ('emit', dt, n, daemon)      return n events at now+dt (bare Event when n == 1)
#  ('gen', d, dt)               generator: yield d ns; return [event at now+dt]
#  ('genside', d)               generator: yield (d ns, [event at now]); return None
#  ('cancel', k)                cancel pre-run event #k
#  ('past',)                    emit an event at now-1 ns (not live)
#  ('past2',)                   emit two events at now-2 and now-1 ns (not live, increasing stale times)
#  ('emitrev', dt)              create a, b (in that order) at now+dt but return [b, a]
#  ('crash', on)                set the *other* entity's crash flag
#  ('bulk', n)                  return n plain events at now+1 (heap-size thresholds)
#  ('bulkmix', n)               create n/2 daemon + n/2 plain events at now+2, cancel the daemon ones at once, return all
#  ('genfut', d)                generator: park on a SimFuture resolved by an event at now+d, then sleep 1 ns, then emit
LEAF = [("nop",)]
BEH_FULL = (
    [("nop",)]
    + [("emit", dt, n, dm) for dt in (0, 1, 2) for n in (1, 2) for dm in (False,)]
    + [("emit", 1, 1, True), ("emit", 0, 1, True)]
    + [("gen", d, dt) for d in (0, 1) for dt in (0, 1)]
    + [("genside", 0), ("genside", 1)]
    + [("cancel", 0), ("cancel", 1), ("cancel", 2)]
    + [("past",), ("past2",)]
    + [("emitrev", 0), ("emitrev", 1)]
    + [("crash", True), ("crash", False)]
)
BEH_SMALL = [("nop",), ("emit", 0, 1, False), ("emit", 1, 2, False), ("gen", 1, 0),
             ("genside", 1), ("cancel", 2), ("emit", 1, 1, True), ("crash", True), ("emitrev", 1), ("past2",)]
BEH_CRASH = [("nop",), ("gen", 1, 0), ("gen", 0, 1), ("genside", 1), ("crash", True), ("crash", False),
             ("emit", 1, 1, True), ("emit", 0, 1, False), ("cancel", 1)]
BEH_BULK = [("nop",), ("bulk", 40), ("bulkmix", 40), ("cancel", 0), ("emit", 1, 1, True), ("gen", 1, 0)]
# no cancel / crash behaviours: they act on harness-held objects and entity state, which reset() does not rebuild
BEH_RESET = [("nop",), ("emit", 0, 1, False), ("emit", 1, 2, False), ("gen", 1, 0), ("genside", 1),
             ("emit", 1, 1, True), ("emitrev", 1), ("past2",), ("genfut", 1)]
BEH_FUT = [("nop",), ("genfut", 0), ("genfut", 1), ("genfut", 2), ("emit", 1, 1, True), ("emit", 2, 1, True),
           ("emit", 1, 1, False), ("gen", 1, 1), ("cancel", 1)]
KINDS = ["plain", "daemon", "cancelled"]
STYLES = ["list", "separate", "reversed", "preconstruct", "preconstruct-hi"]
# (end_ns or None, attach_control)
MODES = [(None, False), (2, False), (2, True), (0, False)]


class Scripted(Entity):
    def __init__(self, name, ctx):
        super().__init__(name)
        self.ctx = ctx
        self._crashed = False

    def handle_event(self, event):
        c = self.ctx
        md = event.context["metadata"]
        seq = md["seq"]
        now = self.now.nanoseconds
        c.deliveries.append((seq, now, event.time.nanoseconds, self.name))
        c.clock_obs.append(now)
        beh = md["beh"]
        kind = beh[0]
        if kind == "nop":
            return None
        if kind == "emit":
            _, dt, n, dm = beh
            evs = [c.mk(now + dt, self, ("nop",), daemon=dm, by=seq) for _ in range(n)]
            return evs[0] if n == 1 else evs
        if kind == "gen":
            return self._gen(beh[1], beh[2], seq, event.daemon)
        if kind == "genside":
            return self._genside(beh[1], seq, event.daemon)
        if kind == "cancel":
            k = beh[1]
            if k < len(c.pre):
                ev = c.pre[k]
                ev.cancel()
                r = c.reg[ev.context["metadata"]["seq"]]
                if r["cancel_key"] is None:
                    r["cancel_key"] = (now, seq)
            return None
        if kind == "past":
            return [c.mk(now - 1, self, ("nop",), by=seq)]
        if kind == "past2":
            return [c.mk(now - 2, self, ("nop",), by=seq), c.mk(now - 1, self, ("nop",), by=seq)]
        if kind == "emitrev":
            a_ = c.mk(now + beh[1], self, ("nop",), by=seq)
            b_ = c.mk(now + beh[1], self, ("nop",), by=seq)
            return [b_, a_]
        if kind == "bulk":
            return [c.mk(now + 1, self, ("nop",), by=seq) for _ in range(beh[1])]
        if kind == "bulkmix":
            h = beh[1] // 2
            ds = [c.mk(now + 2, self, ("nop",), daemon=True, by=seq) for _ in range(h)]
            for ev in ds:
                ev.cancel()
                c.reg[ev.context["metadata"]["seq"]]["cancel_key"] = (now, seq)
            return ds + [c.mk(now + 2, self, ("nop",), by=seq) for _ in range(h)]
        if kind == "genfut":
            return self._genfut(beh[1], seq, event.daemon)
        if kind == "resolve":
            c.futs[beh[1]].resolve(("v", beh[1]))
            return None
        if kind == "crash":
            other = c.ents[1 - c.ents.index(self)]
            other._crashed = beh[1]
            c.toggles.append(((now, seq), other.name, beh[1]))
            return None
        raise AssertionError(beh)

    def _gen(self, d, dt, seq, daemon):
        c = self.ctx
        c.procs[seq] = daemon
        c.proc_due[seq] = self.now.nanoseconds + d
        yield d * 1e-9
        now = self.now.nanoseconds
        c.clock_obs.append(now)
        c.resumes.append((seq, now))
        del c.procs[seq]
        return [c.mk(now + dt, self, ("nop",), by=seq)]

    def _genfut(self, d, seq, daemon):
        from happysimulator.core.sim_future import SimFuture
        c = self.ctx
        c.procs[seq] = daemon
        now0 = self.now.nanoseconds
        fut = SimFuture()
        c.futs.append(fut)
        idx = len(c.futs) - 1
        c.proc_due[seq] = now0 + d
        # the resolver inherits the daemon flag, so a daemon process never owns a primary event
        yield 0.0, [c.mk(now0 + d, self, ("resolve", idx), daemon=daemon, by=seq)]
        v = yield fut
        now = self.now.nanoseconds
        c.clock_obs.append(now)
        c.resumes.append((seq, now))
        if v != ("v", idx):
            c.bad_values.append((seq, v))
        c.proc_due[seq] = now + 1
        yield 1e-9
        now = self.now.nanoseconds
        c.clock_obs.append(now)
        c.resumes.append((seq, now))
        del c.procs[seq]
        return [c.mk(now, self, ("nop",), daemon=daemon, by=seq)]

    def _genside(self, d, seq, daemon):
        c = self.ctx
        c.procs[seq] = daemon
        now0 = self.now.nanoseconds
        c.proc_due[seq] = now0 + d
        yield d * 1e-9, [c.mk(now0, self, ("nop",), by=seq)]
        now = self.now.nanoseconds
        c.clock_obs.append(now)
        c.resumes.append((seq, now))
        del c.procs[seq]
        return None


class Ctx:
    def __init__(self):
        self.seq = 0
        self.reg = {}
        self.deliveries = []
        self.clock_obs = []
        self.resumes = []
        self.toggles = []
        self.procs = {}
        self.futs = []
        self.bad_values = []
        self.proc_due = {}  # seq of the starting event -> ns at which its sleeping process is due to resume
        self.pre = []
        self.ents = []
        self.sim_clock = None
        self.proc_pending_at_delivery = []

    def reset_for_rerun(self):
        """control.reset() was called: only the pre-run events come back (as fresh copies carrying the
        same metadata); everything observed so far belongs to the abandoned run."""
        self.reg = {s: r for s, r in self.reg.items() if r["pre"]}
        self.deliveries, self.clock_obs, self.resumes, self.toggles = [], [], [], []
        self.procs, self.futs, self.bad_values, self.proc_due = {}, [], [], {}

    def mk(self, t_ns, target, beh, daemon=False, by=None):
        s = self.seq
        self.seq += 1
        now = target._clock.now.nanoseconds if target._clock is not None else 0
        ev = Event(time=Instant(t_ns), event_type=f"e{s}", target=target, daemon=daemon,
                   context={"metadata": {"seq": s, "beh": beh}})
        self.reg[s] = {"time": t_ns, "target": target.name, "daemon": daemon, "clock": now,
                       "by": by, "cancel_key": None, "pre": by is None}
        return ev


def build_and_run(program, style, mode):
    """program: tuple of (time_ns, target_idx, kind, beh).  Returns the Ctx after the run."""
    end_ns, attach = mode[0], mode[1]
    inject = mode[2] if len(mode) > 2 else None  # (k, dt): pause after k deliveries, schedule an event at now+dt
    c = Ctx()
    a, b = Scripted("A", c), Scripted("B", c)
    c.ents = [a, b]
    kw = {}
    base = 0
    if len(mode) > 3 and mode[3]:
        # the horizon given as start_time + duration (float seconds): the documented end is the integer-ns sum
        start_s, dur_s = mode[3]
        start = Instant.from_seconds(start_s)
        kw["start_time"] = start
        kw["duration"] = dur_s
        end_ns = start.nanoseconds + int(dur_s * 1_000_000_000)
        base = end_ns - 1  # program times 0,1,2 straddle the horizon: end-1, end, end+1
    elif end_ns is not None:
        kw["end_time"] = Instant(end_ns)

    def make_events():
        evs = []
        for (t, ti, kind, beh) in program:
            ev = c.mk(base + t, c.ents[ti], beh, daemon=(kind == "daemon"))
            if kind == "cancelled":
                ev.cancel()
                c.reg[ev.context["metadata"]["seq"]]["cancel_key"] = (-1, -1)
            evs.append(ev)
        return evs

    if style.startswith("preconstruct"):
        # the state of the process-wide creation counter is an environment answer: own it
        from happysimulator.core.event import reset_event_counter
        reset_event_counter()
        if style == "preconstruct-hi":
            for _ in range(7):
                Event(time=Instant(0), event_type="dummy", target=a)
        evs = make_events()
        sim = Simulation(entities=[a, b], **kw)
        sim.schedule(evs)
    else:
        sim = Simulation(entities=[a, b], **kw)
        evs = make_events()
        if style == "list":
            sim.schedule(evs)
        elif style == "reversed":  # pushed in the reverse of creation order
            sim.schedule(evs[::-1])
        else:
            for e in evs:
                sim.schedule(e)
    c.pre = evs
    if attach:
        sim.control  # noqa: B018  (selects the instrumented loop)
    c.end_ns = end_ns
    reset_k = mode[4] if len(mode) > 4 else None
    if reset_k is not None:
        # run (to completion when reset_k < 0, else pause after reset_k deliveries), control.reset(), run again:
        # the second run is judged by the same oracle as a first run
        ctl = sim.control
        for k in (reset_k if isinstance(reset_k, tuple) else (reset_k,)):  # several resets in a row
            if k < 0:
                sim.run()
            else:
                ctl.pause()
                sim.run()
                if k > 0 and ctl.is_paused:
                    ctl.step(k)
            c.first_run = list(c.deliveries)
            ctl.reset()
            c.reset_for_rerun()
        c.summary = sim.run()
        return c
    if inject is None:
        c.summary = sim.run()
        return c
    # external injection while paused: pause before the first delivery, step k, schedule, resume
    k, dt = inject
    ctl = sim.control
    ctl.pause()
    sim.run()
    if k > 0 and ctl.is_paused:
        ctl.step(k)
    if ctl.is_paused:
        last = c.deliveries[-1][0] if c.deliveries else None
        now = ctl.get_state().current_time.nanoseconds
        ev = c.mk(now + dt, a, ("nop",), by=last)
        c.reg[ev.context["metadata"]["seq"]]["clock"] = now
        sim.schedule(ev)
        c.summary = ctl.resume()
    return c


def oracle(c: Ctx, program, style, mode):
    """Trace oracle.  Returns list of (fingerprint, description)."""
    out = []
    end_ns = c.end_ns
    reg = c.reg
    # 1/2 clock
    for (seq, now, et, _name) in c.deliveries:
        if now != et:
            out.append(("clock-mismatch", f"event seq={seq} time={et}ns delivered with clock={now}ns"))
            break
    prev = -1
    for t in c.clock_obs:
        if t < prev:
            out.append(("clock-backwards", f"clock went from {prev}ns to {t}ns"))
            break
        prev = t
    if c.bad_values:
        out.append(("future-value", f"process of seq={c.bad_values[0][0]} resumed from its future with {c.bad_values[0][1]!r}"))
    # 3 exactly once
    seen = {}
    for i, (seq, now, et, _n) in enumerate(c.deliveries):
        if seq in seen:
            out.append(("duplicated", f"event seq={seq} delivered twice (deliveries {seen[seq]} and {i})"))
            break
        seen[seq] = i
    # key of each delivery in spec order
    dkeys = [(reg[seq]["time"], seq) for (seq, _now, _et, _n) in c.deliveries]
    # 4 cancelled never delivered (cancel happened strictly before its turn)
    for i, (seq, now, et, _n) in enumerate(c.deliveries):
        ck = reg[seq]["cancel_key"]
        if ck is not None:
            # cancelled during the delivery with key ck; violation if that delivery preceded this one
            if ck == (-1, -1) or any(dkeys[j] == ck for j in range(i)):
                out.append(("cancelled-delivered", f"event seq={seq} was cancelled before its turn yet delivered"))
                break
    # crash state at a given key, from the toggles actually executed
    def crashed_at(name, key):
        st = False
        for (tk, n, on) in c.toggles:
            if n == name and tk < key:
                st = on
        return st

    for (seq, now, et, name) in c.deliveries:
        if crashed_at(name, (reg[seq]["time"], seq)):
            out.append(("crashed-delivered", f"event seq={seq} handled by {name} while its crash flag was set"))
            break
    # 5 order: time non-decreasing, ties by creation
    for i in range(1, len(c.deliveries)):
        (s0, n0, _, _), (s1, n1, _, _) = c.deliveries[i - 1], c.deliveries[i]
        if n1 < n0:
            out.append(("time-order", f"delivery of seq={s1} at {n1}ns after seq={s0} at {n0}ns"))
            break
        if n1 == n0 and s1 < s0 and reg[s1]["time"] == reg[s0]["time"]:
            o0 = "pre" if reg[s0]["pre"] else "run"
            o1 = "pre" if reg[s1]["pre"] else "run"
            cls = "same-origin" if o0 == o1 else "pre-vs-run"
            out.append((f"tie-order/{cls}",
                        f"at {n0}ns event seq={s0} ({o0}-created) was delivered before seq={s1} ({o1}-created) "
                        f"although seq={s1} was created first"))
            break
    # 6 completeness
    delivered = set(seen)
    last_key = max(dkeys) if dkeys else None
    auto = end_ns is None
    for seq, r in reg.items():
        if seq in delivered:
            continue
        key = (r["time"], seq)
        if r["time"] < r["clock"]:
            continue  # not live: in the past when scheduled
        if end_ns is not None and r["time"] > end_ns:
            continue  # not live: beyond end_time
        ck = r["cancel_key"]
        if ck is not None and (ck == (-1, -1) or ck < key):
            continue  # cancelled before its turn
        if crashed_at(r["target"], key):
            continue  # target crashed at its turn
        if r["by"] is not None and r["by"] not in delivered:
            continue
        if auto and r["daemon"] and (last_key is None or key > last_key):
            continue  # daemon left over after auto-termination
        out.append(("lost", f"live event seq={seq} time={r['time']}ns target={r['target']} "
                            f"daemon={r['daemon']} was never delivered"))
        break
    # 7 auto-termination: nothing is delivered once no non-daemon event is pending
    if auto and c.deliveries:
        # pending non-daemon work right before delivery i: events created by deliveries < i (or pre-run),
        # not yet delivered, non-daemon, possibly-live; plus sleeping non-daemon processes.
        order = {seq: i for i, (seq, *_r) in enumerate(c.deliveries)}
        for i, (seq, now, et, name) in enumerate(c.deliveries):
            if not reg[seq]["daemon"]:
                continue
            pending = False
            for s2, r2 in reg.items():
                if r2["daemon"] or s2 == seq:
                    continue
                created_before = r2["pre"] or (r2["by"] in order and order[r2["by"]] < i)
                if not created_before:
                    continue
                if s2 in order:
                    if order[s2] < i:
                        continue
                else:
                    # never delivered (cancelled, crashed target, stale): it can only have been
                    # pending while its turn (time, creation) still lay ahead of this delivery
                    if r2["time"] < r2["clock"]:
                        continue
                    if (r2["time"], s2) < (reg[seq]["time"], seq):
                        continue
                pending = True
                break
            if not pending:
                # sleeping non-daemon generator processes started before i and resumed after
                resumed_at = dict(c.resumes)
                for pseq, due in c.proc_due.items():
                    if reg[pseq]["daemon"] or pseq not in order or order[pseq] >= i:
                        continue
                    # resumed at/after this instant, or never resumed (entity went down: the continuation
                    # is parked when its turn comes) but still due at/after this instant => was pending
                    if resumed_at.get(pseq, due) >= now:
                        pending = True
                        break
            if not pending:
                out.append(("autoterm/late/daemon",
                            f"daemon event seq={seq} delivered at {now}ns although no non-daemon event was pending"))
                break
    return out


def classify(c: Ctx):
    """Non-triviality rule: the execution had a same-instant tie between >= 2 deliveries,
    or a cancellation / crash / generator took effect."""
    times = [n for (_s, n, _e, _n) in c.deliveries]
    tie = len(times) != len(set(times))
    return tie or bool(c.resumes) or bool(c.toggles) or any(r["cancel_key"] for r in c.reg.values())


def programs(n_events, behs, times, two_targets):
    specs = [(t, ti, k, b) for t in times for ti in ((0, 1) if two_targets else (0,))
             for k in KINDS for b in behs]
    return specs


def _work(job):
    (first_specs, rest_specs, n_events, styles, modes) = job
    stats = {"exec": 0, "trans": 0, "nontriv": set(), "outcomes": set(), "viol": {}, "samples": []}
    for first in first_specs:
        for rest in itertools.product(rest_specs, repeat=n_events - 1):
            program = (first,) + rest
            for style in styles:
                for mode in modes:
                    c = build_and_run(program, style, mode)
                    stats["exec"] += 1
                    stats["trans"] += len(c.deliveries) + len(c.resumes)
                    obs = digest((c.deliveries, c.resumes))
                    stats["outcomes"].add(obs)
                    if classify(c):
                        stats["nontriv"].add(digest((program, style, mode)))
                    for fp, desc in oracle(c, program, style, mode):
                        if fp not in stats["viol"]:
                            stats["viol"][fp] = (desc, {"driver": "programs", "program": program,
                                                        "style": style, "mode": mode,
                                                        "deliveries": c.deliveries})
                    if len(stats["samples"]) < 1 and stats["exec"] % 97 == 1:
                        stats["samples"].append({"program": program, "style": style, "mode": mode,
                                                 "deliveries": c.deliveries})
    stats["nontriv"] = len(stats["nontriv"])
    return stats


def run_family(run, name, n_events, behs, times, two_targets, styles, modes, seed):
    t0 = time.time()
    specs = programs(n_events, behs, times, two_targets)
    d = run.driver(name, {"pre_run_events": n_events, "behaviours": len(behs), "times_ns": list(times),
                          "kinds": KINDS, "targets": 2 if two_targets else 1,
                          "styles": styles, "modes(end_ns,control)": modes})
    nchunks = 64 if n_events > 1 else 1
    chunks = [specs[i::nchunks] for i in range(nchunks)]
    jobs = [(ch, specs, n_events, styles, modes) for ch in rotate(chunks, seed) if ch]
    outcomes = set()
    for st in pmap(_work, jobs):
        d.executions += st["exec"]
        d.transitions += st["trans"]
        d.nontrivial += st["nontriv"]
        outcomes |= st["outcomes"]
        for fp, (desc, rep) in st["viol"].items():
            run.violation(fp, desc, rep)
        if len(d.samples) < 3:
            d.samples.extend(st["samples"])
    d.states = len(outcomes)
    d.outcomes = len(outcomes)
    d.wall_s = time.time() - t0


def main(tier, seed, only=None):
    run = Run(PID, tier, seed, "model_checking",
              rule=("every program = ordered tuple of pre-run events (time x target x kind x handler behaviour) "
                    "is executed on the real Simulation in every scheduling style and loop mode; distinct = "
                    "distinct (program, style, mode); non-trivial = the run had a same-instant tie, a generator "
                    "resume, a cancellation or a crash-flag toggle; states = distinct delivery traces observed"),
              assumptions=["harness entities observe deliveries inside handle_event (public contract)",
                           "creation order is the order in which the harness itself constructs Event objects"])
    fams = []
    if tier == "quick":
        fams.append(("p1-full", 1, BEH_FULL, (0, 1, 2), True, STYLES, MODES))
        fams.append(("p2-full", 2, BEH_FULL, (0, 1, 2), False, STYLES, MODES))
        fams.append(("p3-small", 3, BEH_SMALL, (1, 2), False, ["list", "preconstruct"], [(None, False), (2, False)]))
        fams.append(("p2-crash-2targets", 2, BEH_CRASH, (0, 1, 2), True, ["list", "reversed"], MODES))
        fams.append(("p2-inject-paused", 2, BEH_SMALL, (0, 1, 2), False, ["list"],
                     [(e, True, (k, dt)) for e in (None, 3) for k in (0, 1, 2, 3) for dt in (0, 1)]))
        fams.append(("p2-duration-horizon", 2, BEH_SMALL, (0, 1, 2), False, ["list"],
                     [(None, att, None, sd) for att in (False, True)
                      for sd in ((0.1, 0.7), (0.3, 0.6), (0.0, 0.5), (1.0, 0.1), (0.2, 0.1))]))
        fams.append(("p3-bulk", 3, BEH_BULK, (0, 1), False, ["list"], [(None, False), (3, True)]))
        fams.append(("p3-futures", 3, BEH_FUT, (0, 1), False, ["list"], [(None, False), (None, True), (3, False)]))
        fams.append(("p2-reset-rerun", 2, BEH_RESET, (0, 1, 2), False, ["list"],
                     [(e, True, None, None, k) for e in (None, 2) for k in (-1, 0, 1, 2, (-1, -1), (1, -1), (-1, 1))]))
    else:
        fams.append(("p1-full", 1, BEH_FULL, (0, 1, 2, 3), True, STYLES, MODES))
        fams.append(("p2-full-2targets", 2, BEH_FULL, (0, 1, 2), True, STYLES, MODES))
        fams.append(("p3-full", 3, BEH_FULL, (0, 1, 2), False, ["list", "preconstruct"], MODES))
        fams.append(("p4-small", 4, BEH_SMALL, (1, 2), False, ["list"], [(None, False), (2, False)]))
        fams.append(("p2-crash-2targets", 2, BEH_CRASH, (0, 1, 2), True, STYLES, MODES))
        fams.append(("p2-inject-paused", 2, BEH_FULL, (0, 1, 2), False, ["list", "reversed"],
                     [(e, True, (k, dt)) for e in (None, 3) for k in (0, 1, 2, 3, 4) for dt in (0, 1, 2)]))
        fams.append(("p2-duration-horizon", 2, BEH_FULL, (0, 1, 2), False, ["list", "reversed"],
                     [(None, att, None, sd) for att in (False, True)
                      for sd in ((0.1, 0.7), (0.3, 0.6), (0.0, 0.5), (1.0, 0.1), (0.2, 0.1), (0.7, 0.1), (0.1, 0.2))]))
        fams.append(("p3-bulk", 3, BEH_BULK + [("bulk", 31), ("bulk", 33), ("bulkmix", 64)], (0, 1, 2), False, ["list", "reversed"], MODES))
        fams.append(("p3-futures", 3, BEH_FUT, (0, 1, 2), True, ["list", "reversed"], MODES))
        fams.append(("p3-reset-rerun", 3, BEH_RESET, (0, 1, 2), False, ["list", "separate"],
                     [(e, True, None, None, k) for e in (None, 2)
                      for k in (-1, 0, 1, 2, 3, (-1, -1), (1, -1), (-1, 1), (2, 2), (-1, -1, -1))]))
    for f in fams:
        if only and f[0] not in only:
            continue
        run_family(run, *f, seed)
    return run.finish()


def replay(data):
    rep = data["replay"]

    def thaw(x):
        return tuple(thaw(i) for i in x) if isinstance(x, list) else x

    program = thaw(rep["program"])
    mode = thaw(rep["mode"])
    c = build_and_run(program, rep["style"], mode)
    print("program:", program, "style:", rep["style"], "mode(end_ns, control):", mode)
    for s, r in c.reg.items():
        print(f"  created seq={s} {r}")
    for d in c.deliveries:
        print(f"  delivered seq={d[0]} clock={d[1]}ns event.time={d[2]}ns at {d[3]}")
    v = oracle(c, program, rep["style"], mode)
    for fp, desc in v:
        print(f"  !! {fp}: {desc}")
    return 1 if v else 0

"""C06 — injected faults act exactly during their windows and isolate only their target.

Engine E2 + exhaustive fault-schedule enumeration.  Three closed worlds, each a
real ``Simulation`` with a real ``FaultSchedule``:

* ``node``     plain entity P, generator entity G (short processes, one long
               process, SimFuture waits and Resource-grant waits in flight across every
               window edge; the futures are resolved by a bystander / a keeper entity before,
               strictly inside and after the windows; the value each process receives is logged),
               a ``QueuedResource`` server Q with a backlog, a bystander B;
               faults CrashNode / PauseNode on P, G, Q.
* ``network``  ``Network`` A<->B, A<->C (bidirectional links), probes in every
               direction at the half-integers; faults NetworkPartition
               (sym/asym, overlapping groups), InjectLatency, InjectPacketLoss
               (1.0 and 0.5, ``random.random`` owned).
* ``resource`` ``Resource`` R (+ identical bystander R2) with every workload of
               <= 2 holds; fault ReduceCapacity.

A schedule is an ORDERED sequence (the order of ``FaultSchedule.add``) of <= k
faults whose window endpoints lie on the grid {1..5} s; every probe lies
strictly inside or outside every window.  Oracle = window algebra (see the
``*_oracle`` functions; each clause quotes the phrase of the statement it
checks).  A violation is reported under the *minimal* sub-schedule that still
shows it, so fingerprints name the smallest shape class.
"""
from __future__ import annotations

import itertools
import time

from mc.evidence import Run, digest
from mc.harness import Entity, Event, Instant, Simulation, owned_random, pmap, rotate, run_guarded

from happysimulator.components.network.link import NetworkLink
from happysimulator.components.network.network import Network
from happysimulator.components.queued_resource import QueuedResource
from happysimulator.components.resource import Grant, Resource
from happysimulator.core.sim_future import SimFuture
from happysimulator.distributions.constant import ConstantLatency
from happysimulator.faults import (
    CrashNode,
    FaultSchedule,
    InjectLatency,
    InjectPacketLoss,
    NetworkPartition,
    PauseNode,
    ReduceCapacity,
)

PID = "C06"

T = 1_000_000_000  # 1 s in ns
TICK = T // 16  # all harness activity happens on 1/16 s ticks (dyadic: float seconds are exact)
GRID = (1, 2, 3, 4, 5)  # window endpoints (s)
WINDOWS = [(s, e) for s in GRID for e in GRID if s < e]
END_S = 12
MAX_EVENTS = 6000
CANCEL_T = 2 * TICK  # 'run' cancel mode: handle.cancel() at 0.125 s (before the earliest activation at 1 s)
CLS = {"crash": "CrashNode", "pause": "PauseNode", "part": "NetworkPartition", "lat": "InjectLatency",
       "loss": "InjectPacketLoss", "cap": "ReduceCapacity"}


def tk(n):
    return n * TICK


def sec(t_ns):
    return t_ns / T


# ---------------------------------------------------------------------------
# fault specs (plain tuples, JSON-able)
# ---------------------------------------------------------------------------
# ('crash', target, at, restart|None)   ('pause', target, start, end)
# ('part', group_a, group_b, asymmetric, start, end)
# ('lat', src, dst, start, end)         ('loss', src, dst, rate, start, end)
# ('cap', resource, factor, start, end)
# schedule = tuple of (spec, cancel) with cancel in None | 'pre' | 'post' | 'run'
EXTRA_MS = 250.0
BASE_LAT_S = 0.125


def make_fault(spec):
    k = spec[0]
    if k == "crash":
        return CrashNode(spec[1], float(spec[2]), None if spec[3] is None else float(spec[3]))
    if k == "pause":
        return PauseNode(spec[1], float(spec[2]), float(spec[3]))
    if k == "part":
        return NetworkPartition(list(spec[1]), list(spec[2]), float(spec[4]), float(spec[5]),
                                asymmetric=spec[3], network_name="net")
    if k == "lat":
        return InjectLatency(spec[1], spec[2], EXTRA_MS, float(spec[3]), float(spec[4]), network_name="net")
    if k == "loss":
        return InjectPacketLoss(spec[1], spec[2], spec[3], float(spec[4]), float(spec[5]), network_name="net")
    if k == "cap":
        return ReduceCapacity(spec[1], spec[2], float(spec[3]), float(spec[4]))
    raise AssertionError(spec)


def win(spec):
    """(start_s, end_s|None) of a fault spec."""
    return (spec[-2], spec[-1])


def footprint(spec):
    """what a fault acts on: {(effect, item)}; two faults are 'same-target' iff their footprints meet."""
    k = spec[0]
    if k in ("crash", "pause"):
        return {("down", spec[1])}
    if k == "part":
        ga, gb, asym = spec[1], spec[2], spec[3]
        fp = {("part", a, b) for a in ga for b in gb}
        if not asym:
            fp |= {("part", b, a) for a in ga for b in gb}
        return fp
    if k in ("lat", "loss"):
        return {(k, spec[1], spec[2])}
    return {("cap", spec[1])}


def inside(t_ns, w):
    """t strictly inside the window (s, e): an instant ON an endpoint is neither in nor out (silent)."""
    s, e = w
    return s * T < t_ns and (e is None or t_ns < e * T)


def touches(t0, t1, w):
    """closed interval [t0, t1] meets the closed window."""
    s, e = w
    return t1 >= s * T and (e is None or t0 <= e * T)


def relation(w1, w2):
    (s1, e1), (s2, e2) = w1, w2
    inf = 10 ** 9
    e1 = inf if e1 is None else e1
    e2 = inf if e2 is None else e2
    if (s1, e1) == (s2, e2):
        return "identical"
    if e1 == s2 or e2 == s1:
        return "adjacent"
    if e1 < s2 or e2 < s1:
        return "disjoint"
    if (s1 <= s2 and e2 <= e1) or (s2 <= s1 and e1 <= e2):
        return "nested"
    return "overlap"


def shape_of(schedule):
    """Shape class of a (minimal) schedule: classes + window relations + cancellation."""
    classes = "+".join(sorted({CLS[s[0]] for s, _c in schedule}))
    cancels = sorted({c for _s, c in schedule if c is not None})
    parts = []
    if cancels:
        parts.append("cancelled-" + "-".join(cancels))
    if len(schedule) == 1:
        if not cancels:
            parts.append("single")
    else:
        rels = sorted({relation(win(a[0]), win(b[0])) for a, b in itertools.combinations(schedule, 2)})
        same = all(footprint(a[0]) & footprint(b[0]) for a, b in itertools.combinations(schedule, 2))
        parts.append(("" if same else "cross-target:") + "+".join(rels))
    return classes, "/".join(parts)


def fingerprint(schedule, key):
    classes, shape = shape_of(schedule)
    clause, kind = key
    if all(c is not None for _s, c in schedule):
        # "Cancelling a fault handle before activation prevents the fault entirely": one clause, whatever the effect
        return f"FaultHandle/cancelled-fault-takes-effect/{shape}/{classes}"
    return f"{classes}/{clause}/{shape}/{kind}"


def install(schedule, fs):
    handles = []
    for spec, c in schedule:
        h = fs.add(make_fault(spec))
        if c == "pre":
            h.cancel()
        handles.append(h)
    return handles


def after_construct(schedule, handles, sim):
    for (spec, c), h in zip(schedule, handles):
        if c == "post":
            h.cancel()
        elif c == "run":
            sim.schedule(Event.once(Instant(CANCEL_T), "harness.cancel", lambda e, h=h: h.cancel()))


def guarded_run(sim):
    try:
        res = run_guarded(sim, max_events=MAX_EVENTS, storm=2000)
        return res["outcome"]
    except Exception as exc:  # the library raised out of run(): recorded, oracle judges the partial log
        return f"raised:{type(exc).__name__}:{exc}"


# ---------------------------------------------------------------------------
# world 1: node faults
# ---------------------------------------------------------------------------
NODE_KIND = {"P": "entity", "G": "entity", "Q": "queued-resource", "B": "bystander"}  # G is an entity whose handler returns generators
PROBE_K = range(6)  # probes at k + 0.5 s, k = 0..5
Q_BATCH = 3
Q_SERVICE_S = 0.3125  # 5 ticks: three items per batch end at k+1.4375 < next batch; item 2 spans the edge k+1


class NodeCtx:
    def __init__(self):
        self.log = {"P": [], "G": [], "Q": [], "B": []}  # actor -> [(kind, t_ns, tag)]
        self.rx = {"P": [], "G": [], "Q": [], "B": []}  # emitter -> [(created_ns, received_ns, tag)]
        # actor -> [(tag, t_ns, value)]: what a process parked on a SimFuture received when it resumed
        self.values = {"P": [], "G": [], "Q": [], "B": []}
        self.futs = {}
        self.sink = None
        # one-unit resources contended with the keeper K: RG by G's 'a<k>' processes, RQ by Q's item 1 of each batch
        self.res = {"RG": Resource("RG", 1), "RQ": Resource("RQ", 1)}

    def emit(self, who, ent, tag):
        now = ent.now
        return Event(time=now, event_type="out", target=self.sink,
                     context={"metadata": {"from": who, "t": now.nanoseconds, "tag": tag}})


def describe(value):
    """JSON-able description of what `yield resource.acquire()` handed to the process."""
    if isinstance(value, Grant):
        return ("grant", value.amount)
    return ("not-a-grant", repr(value))


def node_expected(tag):
    """the value a process with this tag must receive from its SimFuture (same as in the fault-free run)."""
    if tag.startswith("f"):
        return ("val", int(tag[1:]))
    return ("grant", 1)


class Plain(Entity):
    def __init__(self, name, ctx):
        super().__init__(name)
        self.ctx = ctx

    def handle_event(self, event):
        tag = event.context["metadata"]["tag"]
        self.ctx.log[self.name].append(("h", self.now.nanoseconds, tag))
        return [self.ctx.emit(self.name, self, tag)]


class Gen(Entity):
    def __init__(self, name, ctx):
        super().__init__(name)
        self.ctx = ctx

    def handle_event(self, event):
        md = event.context["metadata"]
        tag = md["tag"]
        self.ctx.log[self.name].append(("h", self.now.nanoseconds, tag))
        if event.event_type == "probe":
            return self._short(tag)
        if event.event_type == "long":
            return self._long(tag, md["steps"])
        if event.event_type == "waitf":
            fut = SimFuture()
            self.ctx.futs[md["key"]] = fut
            return self._wait(tag, fut)
        if event.event_type == "acq":
            return self._acquire(tag)
        raise AssertionError(event.event_type)

    def _short(self, tag):
        c = self.ctx
        yield 0.25, [c.emit(self.name, self, tag)]
        c.log[self.name].append(("r", self.now.nanoseconds, tag))
        return [c.emit(self.name, self, tag)]

    def _long(self, tag, steps):
        c = self.ctx
        for _ in range(steps):
            yield 0.5, [c.emit(self.name, self, tag)]
            c.log[self.name].append(("r", self.now.nanoseconds, tag))
        return None

    def _wait(self, tag, fut):
        c = self.ctx
        value = yield fut
        c.log[self.name].append(("r", self.now.nanoseconds, tag))
        c.values[self.name].append((tag, self.now.nanoseconds, value))
        return [c.emit(self.name, self, tag)]

    def _acquire(self, tag):
        """`grant = yield resource.acquire()`: K holds RG, so the grant arrives when K releases (k + 1.1875 s)."""
        c = self.ctx
        got = yield c.res["RG"].acquire(1)
        c.log[self.name].append(("r", self.now.nanoseconds, tag))
        c.values[self.name].append((tag, self.now.nanoseconds, describe(got)))
        yield 0.0625
        c.log[self.name].append(("r", self.now.nanoseconds, tag))
        if isinstance(got, Grant):
            got.release()
        return None


class QServer(QueuedResource):
    def __init__(self, name, ctx):
        super().__init__(name)
        self.ctx = ctx
        self.busy = 0

    def has_capacity(self):
        return self.busy < 1

    def handle_queued_event(self, event):
        c = self.ctx
        tag = event.context["metadata"]["tag"]
        c.log[self.name].append(("h", self.now.nanoseconds, tag))
        self.busy += 1
        try:
            if tag.endswith(".1"):
                # the item in service across the edge k+1 works under a grant of RQ: K holds RQ until k + 1.0625 s,
                # then 1 tick of work (fault-free completion at k + 1.125 s, like the other items' 5 ticks)
                got = yield c.res["RQ"].acquire(1)
                c.log[self.name].append(("r", self.now.nanoseconds, tag))
                c.values[self.name].append((tag, self.now.nanoseconds, describe(got)))
                yield 0.0625
                if isinstance(got, Grant):
                    got.release()
            else:
                yield Q_SERVICE_S
        finally:
            self.busy -= 1
        c.log[self.name].append(("r", self.now.nanoseconds, tag))
        return [c.emit(self.name, self, tag)]


class Bystander(Entity):
    """Receives every emission, runs its own probes and its own long process, resolves G's futures."""

    def __init__(self, name, ctx):
        super().__init__(name)
        self.ctx = ctx

    def handle_event(self, event):
        c = self.ctx
        md = event.context["metadata"]
        now = self.now.nanoseconds
        if event.event_type == "out":
            c.rx[md["from"]].append((md["t"], now, md["tag"]))
            return None
        tag = md["tag"]
        c.log[self.name].append(("h", now, tag))
        if event.event_type == "resolve":
            fut = c.futs.get(md["key"])
            if fut is not None and not fut.is_resolved:
                fut.resolve(("val", md["key"]))
            return None
        if event.event_type == "long":
            return self._long(tag, md["steps"])
        return [c.emit(self.name, self, tag)]

    def _long(self, tag, steps):
        c = self.ctx
        for _ in range(steps):
            yield 0.5
            c.log[self.name].append(("r", self.now.nanoseconds, tag))
        return None


class Keeper(Entity):
    """Holds RG / RQ for a while every second (non-blocking try_acquire, so it never queues); its releases are
    what resolves the acquire futures of G and Q - inside a window whenever the window opens at k+1.  It is
    coupled to G and Q through the resources, so its own activity is not judged."""

    def __init__(self, name, ctx):
        super().__init__(name)
        self.ctx = ctx
        self.held = {}

    def handle_event(self, event):
        rn = event.context["metadata"]["res"]
        if event.event_type == "take":
            if rn not in self.held:
                g = self.ctx.res[rn].try_acquire(1)
                if g is not None:
                    self.held[rn] = g
        else:
            g = self.held.pop(rn, None)
            if g is not None:
                g.release()
        return None


def _ev(t_ns, typ, target, **md):
    return Event(time=Instant(t_ns), event_type=typ, target=target, context={"metadata": md})


def run_node(schedule):
    c = NodeCtx()
    p, g, q, b, kp = Plain("P", c), Gen("G", c), QServer("Q", c), Bystander("B", c), Keeper("K", c)
    c.sink = b
    fs = FaultSchedule()
    handles = install(schedule, fs)
    sim = Simulation(entities=[p, g, q, b, kp, c.res["RG"], c.res["RQ"]], fault_schedule=fs,
                     end_time=Instant(END_S * T))
    after_construct(schedule, handles, sim)
    evs = []
    evs.append(_ev(tk(4), "long", g, tag="long", steps=LONG_STEPS))  # resumes at 0.75, 1.25, ..., 5.75
    evs.append(_ev(tk(4), "long", b, tag="long", steps=LONG_STEPS))
    for k in PROBE_K:
        t = tk(16 * k + 8)
        evs.append(_ev(t, "probe", p, tag=f"p{k}"))
        evs.append(_ev(t, "probe", g, tag=f"s{k}"))
        evs.append(_ev(t, "probe", b, tag=f"b{k}"))
        for i in range(Q_BATCH):
            evs.append(_ev(t, "probe", q, tag=f"q{k}.{i}"))
        # SimFuture wait in flight across the edge k+1: parked at k+0.25, resolved by B at k+1.25
        evs.append(_ev(tk(16 * k + 4), "waitf", g, tag=f"f{k}", key=k))
        evs.append(_ev(tk(16 * k + 20), "resolve", b, tag=f"res{k}", key=k))
        # grant wait in flight across the edge k+1: K holds RG during [k+0.3125, k+1.1875], G asks at k+0.375,
        # gets the grant when K releases, works 1 tick and releases at k+1.25 (before K's next take at k+1.3125)
        evs.append(_ev(tk(16 * k + 5), "take", kp, res="RG"))
        evs.append(_ev(tk(16 * k + 6), "acq", g, tag=f"a{k}"))
        evs.append(_ev(tk(16 * k + 19), "give", kp, res="RG"))
        # K holds RQ during [k+0.75, k+1.0625]; Q's item 1 starts at k+0.8125 and waits for it
        evs.append(_ev(tk(16 * k + 12), "take", kp, res="RQ"))
        evs.append(_ev(tk(16 * k + 17), "give", kp, res="RQ"))
    evs.sort(key=lambda e: e.time.nanoseconds)  # stable: same-instant events keep the order written above
    sim.schedule(evs)
    c.outcome = guarded_run(sim)
    c.final_res = {rn: (r.capacity, r.available, r.waiters) for rn, r in c.res.items()}
    return c


_BASE = {}


def node_base():
    if "node" not in _BASE:
        _BASE["node"] = run_node(())
    return _BASE["node"]


def node_sent(x):
    """[(tag, send_ns)] of the probes addressed to target x."""
    out = []
    for k in PROBE_K:
        t = tk(16 * k + 8)
        if x == "P":
            out.append((f"p{k}", t))
        elif x == "G":
            out.append((f"s{k}", t))
            out.append((f"f{k}", tk(16 * k + 4)))
            out.append((f"a{k}", tk(16 * k + 6)))
        elif x == "Q":
            out += [(f"q{k}.{i}", t) for i in range(Q_BATCH)]
    if x == "G":
        out.append(("long", tk(4)))
    return out


def node_oracle(schedule, c):
    """-> list of (key=(clause, target kind), description)."""
    base = node_base()
    out = []
    wins = {}
    for spec, cancel in schedule:
        if cancel is None:
            wins.setdefault(spec[1], []).append(win(spec))
    note = "" if c.outcome == "done" else f" [run outcome: {c.outcome}]"
    if c.outcome.startswith("raised"):
        # no handler of the fault-free workload raises; a fault schedule must not make the run blow up either
        out.append((("run-raises", "simulation"), f"Simulation.run() raised under this fault schedule: {c.outcome}"))
    for x in ("P", "G", "Q", "B"):
        kind = NODE_KIND[x]
        ws = wins.get(x)
        # "processing resumes from the restart time": a process that was waiting on a SimFuture (a reply, a Resource
        # grant) and resumes - at whatever time - continues with exactly the value the future was resolved with
        for (tag, t, value) in c.values[x]:
            if value != node_expected(tag):
                out.append((("process-resumes-with-wrong-value", kind),
                            f"process {tag} of {x} resumed at {sec(t)} s from its SimFuture with {value!r} instead of "
                            f"{node_expected(tag)!r} (the value the future was resolved with){note}"))
                break
        if not ws:
            # "other entities are unaffected" / "cancelling a fault handle before activation prevents the fault entirely"
            if c.log[x] != base.log[x] or c.rx[x] != base.rx[x] or c.values[x] != base.values[x]:
                diff = _first_diff(c.log[x] + c.rx[x] + c.values[x], base.log[x] + base.rx[x] + base.values[x])
                out.append((("untargeted-entity-differs-from-fault-free-run", kind),
                            f"{x} is targeted by no uncancelled fault, yet its activity differs from the "
                            f"fault-free run: {diff}{note}"))
            continue
        # "it executes nothing: no handler runs, no in-flight process advances, and it emits no events"
        seen = set()
        explained = set()
        for (k, t, tag) in c.log[x]:
            if any(inside(t, w) for w in ws):
                explained.add(t)
                act = "handler-runs" if k == "h" else "process-advances"
                if act not in seen:
                    seen.add(act)
                    out.append(((f"executes-while-down:{act}", kind),
                                f"{x} {'entered its handler' if k == 'h' else 'resumed an in-flight process'} "
                                f"(tag {tag}) at {sec(t)} s, strictly inside a down window {ws}{note}"))
        for (ct, rt, tag) in c.rx[x]:
            if ct not in explained and any(inside(ct, w) for w in ws) and "emits" not in seen:
                seen.add("emits")
                out.append((("executes-while-down:emits", kind),
                            f"{x} emitted an event (tag {tag}) at {sec(ct)} s, strictly inside a down window {ws}{note}"))
        # "processing resumes from the restart time" (and is untouched before the crash)
        if x in ("P", "G"):
            # a process of the fault-free run whose whole lifetime stays clear of every window runs identically
            by_tag_base = _by_tag(base.log[x])
            by_tag = _by_tag(c.log[x])
            for tag, ents in by_tag_base.items():
                t0, t1 = ents[0][1], ents[-1][1]
                if any(touches(t0, t1, w) for w in ws):
                    continue
                if by_tag.get(tag) != ents:
                    out.append((("no-processing-outside-window", kind),
                                f"work {tag} of {x} spans [{sec(t0)}, {sec(t1)}] s, clear of every down window {ws}, "
                                f"but ran as {by_tag.get(tag)} instead of {ents}{note}"))
                    break
            if x == "G":
                bad = long_process_check(ws, by_tag.get("long", []))
                if bad:
                    out.append((("in-flight-process-resumption", kind),
                                f"the long process of G (started at 0.25 s, {LONG_STEPS} steps of 0.5 s) under down "
                                f"windows {ws}: {bad}; steps ran at "
                                f"{[sec(e[1]) for e in by_tag.get('long', []) if e[0] == 'r']}{note}"))
        else:
            # queue-fronted target: work queued behind an interrupted item legitimately shifts, and the fate of work
            # that is queued or in service when a window opens is not stated, so (i) items whose fault-free lifetime
            # ends before the first window opens run identically, and (ii) requests arriving after the last window
            # has ended are handled by the end of the run ("processing resumes from the restart time").
            first = min(s for (s, _e) in ws) * T
            by_tag_base = _by_tag(base.log[x])
            by_tag = _by_tag(c.log[x])
            for tag, ents in by_tag_base.items():
                if ents[-1][1] < first and by_tag.get(tag) != ents:
                    out.append((("no-processing-outside-window", kind),
                                f"work {tag} of {x} is over at {sec(ents[-1][1])} s, before the first down window of {ws} "
                                f"opens, but ran as {by_tag.get(tag)} instead of {ents}{note}"))
                    break
            handled = {tag for (k, _t, tag) in c.log[x] if k == "h"}
            if all(e is not None for (_s, e) in ws):
                last = max(e for (_s, e) in ws) * T
                for tag, t in node_sent(x):
                    if t > last and tag not in handled:
                        out.append((("no-processing-outside-window", kind),
                                    f"request {tag} reached {x} at {sec(t)} s, after the last down window of {ws} ended, "
                                    f"and was never handled{note}"))
                        break
    return out


LONG_STEPS = 11
LONG_DELAY = 8 * TICK  # 0.5 s


def down_periods(ws):
    """maximal down periods [S, E) of a set of windows (touching windows merge; E None = never restarts)."""
    inf = float("inf")
    spans = sorted((s * T, inf if e is None else e * T) for (s, e) in ws)
    merged = []
    for s, e in spans:
        if merged and s <= merged[-1][1]:
            merged[-1][1] = max(merged[-1][1], e)
        else:
            merged.append([s, e])
    return [(s, None if e == inf else e) for s, e in merged]


def long_process_check(ws, entries):
    """"no in-flight process advances ... processing resumes from the restart time": every step of the multi-yield
    process happens exactly once, one delay after the previous step, or - when that instant falls in a down
    period - exactly at the end of that period.  A step due exactly ON the start of a period may run there or be
    frozen (tie with the fault event).  Returns a description of the first deviation, or None."""
    periods = down_periods(ws)
    if not entries or entries[0][0] != "h":
        return None  # never started (judged by the other clauses)
    steps = [t for (k, t, _tag) in entries if k == "r"]
    prev = entries[0][1]
    for i in range(LONG_STEPS):
        due = prev + LONG_DELAY
        allowed = [due]
        may_never = False
        for (S, E) in periods:
            if S <= due and (E is None or due < E):
                allowed = ([S] if due == S else []) + ([E] if E is not None else [])
                may_never = E is None
        if i >= len(steps):
            if allowed and not may_never:
                return (f"step {i + 1} never ran (expected at {' or '.join(str(sec(a)) for a in allowed)} s after the "
                        f"step at {sec(prev)} s)")
            return None  # frozen for good by a crash without restart
        if steps[i] not in allowed:
            exp = " or ".join(str(sec(a)) for a in allowed) or "never (entity stays down)"
            return f"step {i + 1} ran at {sec(steps[i])} s after the step at {sec(prev)} s, expected at {exp} s"
        prev = steps[i]
    if len(steps) > LONG_STEPS:
        return f"{len(steps)} steps ran, the process has only {LONG_STEPS}"
    return None


def _by_tag(log):
    d = {}
    for e in log:
        d.setdefault(e[2], []).append(e)
    return d


def _first_diff(a, b):
    for i, (x, y) in enumerate(zip(a, b)):
        if x != y:
            return f"entry {i}: observed {x}, fault-free {y}"
    return f"length {len(a)} vs fault-free {len(b)}"


def node_obs(c):
    return digest((c.log, c.rx, c.values, c.final_res, c.outcome))


def node_trans(c):
    return (sum(len(v) for v in c.log.values()) + sum(len(v) for v in c.rx.values())
            + sum(len(v) for v in c.values.values()))


def node_atoms(cancel_modes):
    specs = []
    for x in ("P", "G", "Q"):
        for (s, e) in WINDOWS:
            specs.append(("crash", x, s, e))
            specs.append(("pause", x, s, e))
        for s in GRID:
            specs.append(("crash", x, s, None))
    return [(sp, c) for sp in specs for c in cancel_modes]


# ---------------------------------------------------------------------------
# world 2: network faults
# ---------------------------------------------------------------------------
NODES = ("A", "B", "C")
PAIRS = (("A", "B"), ("B", "A"), ("A", "C"), ("C", "A"))
BASE_LAT_NS = int(BASE_LAT_S * T)
RAND_MENU = [0.000001, 0.999999]


class NetNode(Entity):
    def __init__(self, name, ctx):
        super().__init__(name)
        self.ctx = ctx

    def handle_event(self, event):
        md = event.context["metadata"]
        self.ctx.rx[md["pid"]] = self.now.nanoseconds
        return None


class Ticker(Entity):
    def __init__(self, name, ctx):
        super().__init__(name)
        self.ctx = ctx

    def handle_event(self, event):
        c = self.ctx
        k = event.context["metadata"]["k"]
        now = self.now.nanoseconds
        out = []
        for (a, b) in PAIRS:
            c.samples[(a, b, k)] = (c.net.is_partitioned(a, b), c.net.get_link(a, b).packet_loss_rate)
            c.sent[(a, b, k)] = now
            out.append(c.net.send(c.ents[a], c.ents[b], "probe", payload={"pid": (a, b, k)}))
        return out


class NetCtx:
    def __init__(self):
        self.rx = {}
        self.sent = {}
        self.samples = {}
        self.rand_calls = 0


class ModeChooser:
    """Owns random.random(): 'lo' -> 0.000001 on every call, 'hi' -> 0.999999 on every call."""

    def __init__(self, mode, ctx):
        self.mode = mode
        self.ctx = ctx

    def choose(self, n, tag=None):
        self.ctx.rand_calls += 1
        return 0 if self.mode == "lo" else n - 1


HEAL_TICKS = tuple(16 * k + 4 for k in (1, 2, 3, 4))  # operator heal-all at 1.25, 2.25, 3.25, 4.25 s (off the probe instants)


def run_net(schedule, mode="lo", heal_tick=None):
    c = NetCtx()
    c.ents = {n: NetNode(n, c) for n in NODES}
    net = Network(name="net")
    net.add_bidirectional_link(c.ents["A"], c.ents["B"], NetworkLink(name="ab", latency=ConstantLatency(BASE_LAT_S)))
    net.add_bidirectional_link(c.ents["A"], c.ents["C"], NetworkLink(name="ac", latency=ConstantLatency(BASE_LAT_S)))
    c.net = net
    ticker = Ticker("ticker", c)
    fs = FaultSchedule()
    handles = install(schedule, fs)
    sim = Simulation(entities=[net, ticker] + list(c.ents.values()), fault_schedule=fs,
                     end_time=Instant(END_S * T))
    after_construct(schedule, handles, sim)
    sim.schedule([_ev(tk(16 * k + 8), "tick", ticker, k=k) for k in PROBE_K])
    if heal_tick is not None:
        # an operator heals ALL partitions in mid-run through the public Network.heal_partition()
        sim.schedule(Event.once(Instant(tk(heal_tick)), "harness.heal_all", lambda e: net.heal_partition()))
    with owned_random(ModeChooser(mode, c), rand=RAND_MENU):
        c.outcome = guarded_run(sim)
    c.final = {(a, b): (net.is_partitioned(a, b), net.get_link(a, b).packet_loss_rate) for (a, b) in PAIRS}
    return c


def part_blocks(spec, a, b):
    ga, gb, asym = spec[1], spec[2], spec[3]
    if a in ga and b in gb:
        return True
    return (not asym) and a in gb and b in ga


def net_oracle(schedule, c, mode, heal_ns=None):
    out = []
    live = [spec for spec, cancel in schedule if cancel is None]
    note = "" if c.outcome == "done" else f" [run outcome: {c.outcome}]"
    done = set()
    if c.outcome.startswith("raised"):
        out.append((("run-raises", "simulation"), f"Simulation.run() raised under this fault schedule: {c.outcome}"))

    short = {"NetworkPartition": "partition", "InjectPacketLoss": "loss", "InjectLatency": "latency"}

    def add(cls, clause, pair, desc):
        eff = "+".join(short.get(x, x.lower()) for x in cls.split("+"))
        touched = any((s[0] == "part" and part_blocks(s, *pair)) or (s[0] in ("lat", "loss") and (s[1], s[2]) == pair)
                      for s in live)
        key = (f"{eff}:{clause}", ("link" if touched else "untargeted-link") + ("+heal-all" if heal_ns is not None else ""))
        if key not in done:
            done.add(key)
            out.append((key, desc + note))

    for (a, b) in PAIRS:
        parts = [s for s in live if s[0] == "part" and part_blocks(s, a, b)]
        losses = [s for s in live if s[0] == "loss" and (s[1], s[2]) == (a, b)]
        lats = [s for s in live if s[0] == "lat" and (s[1], s[2]) == (a, b)]
        for k in PROBE_K:
            t = c.sent.get((a, b, k))
            if t is None:
                add("Network", "probe-not-sent", (a, b), f"tick {k} never ran")
                continue
            p_on = [s for s in parts if inside(t, win(s))]
            if heal_ns is not None:
                # Network.heal_partition(): "Remove all network partitions, restoring full connectivity" - a window
                # that was open at the heal-all is over from then on; windows that start later act normally
                p_on = [s for s in p_on if not (win(s)[0] * T < heal_ns <= t)]
            l_on = [s for s in losses if inside(t, win(s))]
            d_on = [s for s in lats if inside(t, win(s))]
            s_part, s_loss = c.samples[(a, b, k)]
            got = c.rx.get((a, b, k))
            # "A partition ... is in effect for its target exactly while at least one fault window ... is active"
            if bool(p_on) != bool(s_part):
                add("NetworkPartition", "in-effect-outside-window" if s_part else "not-in-effect-while-window-active",
                    (a, b), f"is_partitioned({a},{b}) = {s_part} at {sec(t)} s; active partition windows: "
                    f"{[win(s) for s in p_on]} (all on this pair: {[win(s) for s in parts]})")
            # "... packet loss ... exactly while ..." (configured loss rate is 0)
            if bool(l_on) != (s_loss > 0):
                add("InjectPacketLoss", "in-effect-outside-window" if s_loss > 0 else "not-in-effect-while-window-active",
                    (a, b), f"link {a}->{b} packet_loss_rate = {s_loss} at {sec(t)} s; active loss windows: "
                    f"{[win(s) for s in l_on]} (all on this link: {[win(s) for s in losses]})")
            # traffic: dropped iff a partition / loss is in effect
            full = any(s[3] >= 1.0 for s in l_on)
            if p_on or full:
                expect = "dropped"  # whatever random.random() answers
            elif l_on:
                expect = None  # partial loss: which draws count as lost is the library's business (state sample above)
            else:
                expect = "delivered"
            if bool(p_on) != bool(s_part) or bool(l_on) != (s_loss > 0):
                expect = None  # already reported through the state samples above
            if expect == "dropped" and got is not None:
                cls = "NetworkPartition" if p_on else "InjectPacketLoss"
                add(cls, "probe-delivered-while-window-active", (a, b),
                    f"probe {a}->{b} sent at {sec(t)} s was delivered although "
                    f"{'partition' if p_on else 'loss'} windows {[win(s) for s in (p_on or l_on)]} are active"
                    f" (random.random() owned: {mode})")
            if expect == "delivered" and got is None:
                cls = "+".join(sorted({CLS[s[0]] for s in parts + losses})) or "Network"
                add(cls, "probe-dropped-outside-window", (a, b),
                    f"probe {a}->{b} sent at {sec(t)} s was dropped although no partition window "
                    f"(of {[win(s) for s in parts]}) and no certain-loss window (of {[win(s) for s in losses]}) is active"
                    f" (random.random() owned: {mode})")
            # "added latency ... exactly while ...": slower than configured iff active
            if got is not None:
                delay = got - t
                if d_on and delay <= BASE_LAT_NS:
                    add("InjectLatency", "not-in-effect-while-window-active", (a, b),
                        f"probe {a}->{b} sent at {sec(t)} s took {sec(delay)} s (configured {BASE_LAT_S} s) although "
                        f"latency windows {[win(s) for s in d_on]} are active (all on this link: {[win(s) for s in lats]})")
                if not d_on and delay != BASE_LAT_NS:
                    add("InjectLatency" if lats else "Network", "in-effect-outside-window", (a, b),
                        f"probe {a}->{b} sent at {sec(t)} s took {sec(delay)} s instead of the configured {BASE_LAT_S} s "
                        f"although no latency window (of {[win(s) for s in lats]}) is active")
        # "once every window has ended the system is back to its configured state"
        f_part, f_loss = c.final[(a, b)]
        if f_part and all(win(s)[1] is not None for s in parts):
            add("NetworkPartition", "not-restored-after-last-window", (a, b),
                f"is_partitioned({a},{b}) still True at the end of the run")
        if f_loss != 0.0:
            add("InjectPacketLoss", "not-restored-after-last-window", (a, b),
                f"link {a}->{b} packet_loss_rate = {f_loss} at the end of the run (configured 0.0)")
    return out


def net_obs(c):
    return digest((sorted(c.rx.items()), sorted(c.samples.items()), c.outcome))


def net_trans(c):
    return len(c.sent) + len(c.rx)


PART_GROUPS = [(("A",), ("B",), False), (("A",), ("B",), True), (("B",), ("A",), True), (("A",), ("B", "C"), False)]


def net_atoms(cancel_modes):
    specs = []
    for (s, e) in WINDOWS:
        for (ga, gb, asym) in PART_GROUPS:
            specs.append(("part", ga, gb, asym, s, e))
        specs.append(("lat", "A", "B", s, e))
        specs.append(("lat", "B", "A", s, e))
        specs.append(("loss", "A", "B", 1.0, s, e))
        specs.append(("loss", "A", "B", 0.5, s, e))
        specs.append(("loss", "B", "A", 1.0, s, e))
    return [(sp, c) for sp in specs for c in cancel_modes]


def net_modes(schedule):
    """random.random() is only consulted on links with a loss rate > 0: both answers whenever a loss fault is live."""
    if any(spec[0] == "loss" and c is None for spec, c in schedule):
        return ("lo", "hi")
    return ("lo",)


# ---------------------------------------------------------------------------
# world 3: resource faults
# ---------------------------------------------------------------------------
CAP = 4
SAMPLE_K = range(7)  # samples at k + 0.75 s
HOLD_ATOMS = [(a, r, amt) for (a, r) in ((8, 40), (8, 104), (40, 56), (40, 104)) for amt in (1, 3)]  # ticks


def workloads():
    out = [()]
    out += [(h,) for h in HOLD_ATOMS]
    out += list(itertools.combinations(HOLD_ATOMS, 2))
    return out


class Holder(Entity):
    def __init__(self, name, ctx):
        super().__init__(name)
        self.ctx = ctx
        self.state = {}
        self.grants = {}

    def handle_event(self, event):
        c = self.ctx
        md = event.context["metadata"]
        rn, hid = md["res"], md["hid"]
        res = c.res[rn]
        now = self.now.nanoseconds
        key = (rn, hid)
        if md["op"] == "acq":
            try:
                fut = res.acquire(md["amt"])
            except ValueError as exc:
                c.log[rn].append(("acquire-rejected", now, hid, str(exc)))
                self.state[key] = "rejected"
                return None
            self.state[key] = "waiting"
            c.pending[rn].append((hid, md["amt"]))
            return self._wait(rn, hid, fut)
        st = self.state.get(key)
        if st == "held":
            self._release(rn, hid)
        elif st == "waiting":
            self.state[key] = "release-on-grant"
        return None

    def _wait(self, rn, hid, fut):
        c = self.ctx
        grant = yield fut
        c.log[rn].append(("granted", self.now.nanoseconds, hid, grant.amount))
        c.pending[rn] = [p for p in c.pending[rn] if p[0] != hid]
        c.held[rn] += grant.amount
        self.grants[(rn, hid)] = grant
        if self.state[(rn, hid)] == "release-on-grant":
            self._release(rn, hid)
        else:
            self.state[(rn, hid)] = "held"
        return None

    def _release(self, rn, hid):
        c = self.ctx
        g = self.grants.pop((rn, hid))
        c.held[rn] -= g.amount
        self.state[(rn, hid)] = "done"
        try:
            g.release()
            c.log[rn].append(("released", self.now.nanoseconds, hid, g.amount))
        except ValueError as exc:
            c.log[rn].append(("release-raised", self.now.nanoseconds, hid, str(exc)))


class Sampler(Entity):
    def __init__(self, name, ctx):
        super().__init__(name)
        self.ctx = ctx

    def handle_event(self, event):
        c = self.ctx
        for rn, r in c.res.items():
            c.samples[rn].append((self.now.nanoseconds, r.capacity, r.available, r.waiters, c.held[rn],
                                  tuple(c.pending[rn])))
        return None


class ResCtx:
    def __init__(self):
        self.res = {}
        self.log = {"R": [], "R2": []}
        self.samples = {"R": [], "R2": []}
        self.held = {"R": 0, "R2": 0}
        self.pending = {"R": [], "R2": []}


def run_res(schedule, workload):
    c = ResCtx()
    c.res = {"R": Resource("R", CAP), "R2": Resource("R2", CAP)}
    h, s = Holder("H", c), Sampler("S", c)
    fs = FaultSchedule()
    handles = install(schedule, fs)
    sim = Simulation(entities=[c.res["R"], c.res["R2"], h, s], fault_schedule=fs, end_time=Instant(END_S * T))
    after_construct(schedule, handles, sim)
    evs = []
    for i, (a, r, amt) in enumerate(workload):
        for rn in ("R", "R2"):
            evs.append(_ev(tk(a), "acq", h, op="acq", res=rn, hid=i, amt=amt))
            evs.append(_ev(tk(r), "rel", h, op="rel", res=rn, hid=i))
    evs += [_ev(tk(16 * k + 12), "sample", s) for k in SAMPLE_K]
    evs.sort(key=lambda e: e.time.nanoseconds)
    sim.schedule(evs)
    c.outcome = guarded_run(sim)
    return c


def res_base(workload):
    key = ("res", workload)
    if key not in _BASE:
        _BASE[key] = run_res((), workload)
    return _BASE[key]


def res_oracle(schedule, c, workload):
    out = []
    base = res_base(workload)
    note = "" if c.outcome == "done" else f" [run outcome: {c.outcome}]"
    if c.outcome.startswith("raised"):
        out.append((("run-raises", "simulation"), f"Simulation.run() raised under this fault schedule: {c.outcome}"))
    live = {}
    for spec, cancel in schedule:
        if cancel is None:
            live.setdefault(spec[1], []).append(spec)
    done = set()

    def add(clause, kind, desc):
        if (clause, kind) not in done:
            done.add((clause, kind))
            out.append(((clause, kind), desc + note))

    for rn in ("R", "R2"):
        specs = live.get(rn)
        kind = "resource" if rn == "R" else "bystander-resource"
        if not specs:
            if c.samples[rn] != base.samples[rn] or c.log[rn] != base.log[rn]:
                add("untargeted-resource-differs-from-fault-free-run", kind,
                    f"{rn} has no uncancelled fault, yet differs from the fault-free run: "
                    f"{_first_diff(c.samples[rn] + c.log[rn], base.samples[rn] + base.log[rn])}")
            continue
        ws = [win(s) for s in specs]
        n_before = len(out)
        last_end = max(e for (_s, e) in ws) * T
        if len(c.samples[rn]) != len(SAMPLE_K):
            add("samples-missing", kind, f"only {len(c.samples[rn])} of {len(SAMPLE_K)} sample events ran")
        for (t, capacity, avail, waiters, held, pending) in c.samples[rn]:
            active = [w for w in ws if inside(t, w)]
            # "reduced capacity is in effect ... exactly while at least one fault window ... is active"
            if active and not capacity < CAP:
                add("not-reduced-while-window-active", kind,
                    f"{rn}.capacity = {capacity} (configured {CAP}) at {sec(t)} s although windows {active} are active "
                    f"(all: {ws})")
            if active and capacity < CAP:
                # documented by ReduceCapacity: "every open window multiplies the configured capacity by its factor"
                want = CAP
                for sp in specs:
                    if inside(t, win(sp)):
                        want = want * sp[2]
                if capacity != want:
                    add("wrong-reduced-capacity", kind,
                        f"{rn}.capacity = {capacity} at {sec(t)} s; the open windows "
                        f"{[(sp[2], win(sp)) for sp in specs if inside(t, win(sp))]} (factor, window) multiply the "
                        f"configured {CAP} down to {want}")
            if not active and capacity != CAP:
                add("reduced-outside-window", kind,
                    f"{rn}.capacity = {capacity} (configured {CAP}) at {sec(t)} s although no window of {ws} is active")
            # "once every window has ended the system is back to its configured state"
            if t > last_end and capacity == CAP and avail + held != capacity:
                add("not-restored-after-last-window:available", kind,
                    f"at {sec(t)} s, after the last window of {ws}: {rn}.available = {avail} with {held} held by "
                    f"unreleased grants, capacity {capacity} (available + held should equal capacity); "
                    f"log: {c.log[rn]}")
            if t > last_end and waiters and pending and avail >= pending[0][1]:
                add("not-restored-after-last-window:waiter-stranded", kind,
                    f"at {sec(t)} s, after the last window of {ws}: acquire({pending[0][1]}) is still waiting although "
                    f"{rn}.available = {avail}; log: {c.log[rn]}")
        if c.samples[rn] and base.samples[rn] and c.samples[rn][-1][1:] != base.samples[rn][-1][1:] and len(out) == n_before:
            add("not-restored-after-last-window:end-state", kind,
                f"final state (capacity, available, waiters, held, pending) = {c.samples[rn][-1][1:]}, "
                f"fault-free run: {base.samples[rn][-1][1:]}; log: {c.log[rn]}")
    return out


def res_obs(c):
    return digest((c.samples, c.log, c.outcome))


def res_trans(c):
    return sum(len(v) for v in c.samples.values()) + sum(len(v) for v in c.log.values())


def res_atoms(cancel_modes):
    specs = [("cap", "R", f, s, e) for (s, e) in WINDOWS for f in (0.5, 0.25)]
    return [(sp, c) for sp in specs for c in cancel_modes]


# ---------------------------------------------------------------------------
# generic: evaluate one schedule (+ variant), minimality, worker
# ---------------------------------------------------------------------------
def variants(world, schedule):
    if world == "node":
        return (None,)
    if world == "network":
        return net_modes(schedule)
    if world == "healall":
        return HEAL_TICKS
    return tuple(range(len(_WL)))


_WL = workloads()
_VERDICTS = {}


def execute(world, schedule, variant):
    if world == "node":
        c = run_node(schedule)
        return c, node_oracle(schedule, c), node_obs(c), node_trans(c)
    if world == "network":
        c = run_net(schedule, variant)
        return c, net_oracle(schedule, c, variant), net_obs(c), net_trans(c)
    if world == "healall":
        c = run_net(schedule, "lo", heal_tick=variant)
        return c, net_oracle(schedule, c, "lo", heal_ns=tk(variant)), net_obs(c), net_trans(c)
    wl = _WL[variant]
    c = run_res(schedule, wl)
    return c, res_oracle(schedule, c, wl), res_obs(c), res_trans(c)


def verdict_keys(world, schedule):
    """Violated keys of a (sub-)schedule under ANY of its variants, memoised per worker process."""
    k = (world, schedule)
    v = _VERDICTS.get(k)
    if v is None:
        keys = set()
        for variant in variants(world, schedule):
            _c, viol, _o, _t = execute(world, schedule, variant)
            keys.update(key for key, _d in viol)
        v = _VERDICTS[k] = frozenset(keys)
    return v


def sub_schedules(schedule):
    n = len(schedule)
    for r in range(1, n):
        for idx in itertools.combinations(range(n), r):
            yield tuple(schedule[i] for i in idx)


def is_minimal(world, schedule, key):
    """No proper sub-schedule (under any variant) already shows the violated key.  A sub-schedule made only of
    cancelled faults that shows ANY violation (a cancelled fault took effect) explains every key."""
    for sub in sub_schedules(schedule):
        keys = verdict_keys(world, sub)
        if key in keys or (keys and all(c is not None for _s, c in sub)):
            return False
    return True


def nontrivial(world, schedule):
    """>= 2 faults whose closed windows meet (adjacent / overlapping / nested / identical), or a cancelled
    handle, or a node fault on a target with work in flight across the window edge (G, Q: always)."""
    if any(c is not None for _s, c in schedule):
        return True
    if world == "healall" and schedule:
        return True  # an operator heal-all lands before / inside / between / after the partition windows
    for a, b in itertools.combinations(schedule, 2):
        if relation(win(a[0]), win(b[0])) != "disjoint":
            return True
    return any(s[0] in ("crash", "pause") and s[1] in ("G", "Q") for s, _c in schedule)


def healall_atoms(cancel_modes):
    return [(sp, c) for (sp, c) in net_atoms(cancel_modes) if sp[0] == "part"]


def atoms_for(world, cancel_modes):
    return {"node": node_atoms, "network": net_atoms, "resource": res_atoms,
            "healall": healall_atoms}[world](cancel_modes)


def schedules_of(world, k, cancel_modes, prefix):
    """all ordered k-sequences of atoms starting with the atoms whose indices are in ``prefix``."""
    atoms = atoms_for(world, cancel_modes)
    head = tuple(atoms[i] for i in prefix)
    for rest in itertools.product(atoms, repeat=k - len(prefix)):
        yield head + rest


def _work(job):
    world, k, cancel_modes, prefix = job
    st = {"exec": 0, "trans": 0, "nontriv": 0, "outcomes": set(), "viol": {}, "samples": [], "sched": 0,
          "non_minimal": 0}
    for schedule in schedules_of(world, k, cancel_modes, prefix):
        st["sched"] += 1
        nt = nontrivial(world, schedule)
        results = []
        for variant in variants(world, schedule):
            c, viol, obs, trans = execute(world, schedule, variant)
            results.append((variant, c, viol, obs))
            st["exec"] += 1
            st["trans"] += trans
            st["outcomes"].add(obs)
            if nt:
                st["nontriv"] += 1
            if len(st["samples"]) < 1 and schedule and st["exec"] % 53 == 7:
                st["samples"].append({"world": world, "schedule": schedule, "variant": variant,
                                      "violated": [key for key, _d in viol], "outcome": c.outcome})
        if len(schedule) < 3:
            _VERDICTS[(world, schedule)] = frozenset(key for _v, _c, viol, _o in results for key, _d in viol)
        for variant, c, viol, obs in results:
            for key, desc in viol:
                fp = fingerprint(schedule, key)
                if fp in st["viol"]:
                    continue
                if not is_minimal(world, schedule, key):
                    st["non_minimal"] += 1
                    continue
                _c2, viol2, obs2, _t2 = execute(world, schedule, variant)
                if obs2 != obs or key not in [k2 for k2, _d2 in viol2]:
                    raise RuntimeError(f"C06 harness: re-running {schedule} ({variant}) gave a different observation")
                st["viol"][fp] = (desc, {"driver": world, "schedule": schedule, "variant": variant, "key": key})
    return st


def run_driver(run, world, kmax, cancel_by_k, seed):
    t0 = time.time()
    name = world
    d = run.driver(name, {
        "max_faults": kmax, "window_endpoints_s": list(GRID), "schedules": "ordered sequences (add order)",
        "cancel_modes_by_k": {str(k): [str(c) for c in cancel_by_k[k]] for k in range(1, kmax + 1)},
        "atoms": len(atoms_for(world, (None,))),
        "variants": {"node": 1, "network": "random.random() in {0.000001, 0.999999} when a loss fault is live",
                     "resource": f"{len(_WL)} hold workloads",
                     "healall": "operator Network.heal_partition() at 1.25 / 2.25 / 3.25 / 4.25 s"}[world],
    })
    outcomes = set()
    jobs = []
    for k in range(0, kmax + 1):
        modes = cancel_by_k.get(k, (None,))
        n = len(atoms_for(world, modes))
        plen = max(0, k - 1) if world != "resource" else min(k, 1)
        prefixes = list(itertools.product(range(n), repeat=plen))
        jobs += [(world, k, modes, p) for p in rotate(prefixes, seed)]
    nonmin = 0
    for st in pmap(_work, jobs):
        d.executions += st["exec"]
        d.transitions += st["trans"]
        d.nontrivial += st["nontriv"]
        outcomes |= st["outcomes"]
        nonmin += st["non_minimal"]
        for fp, (desc, rep) in st["viol"].items():
            run.violation(fp, desc, rep)
        d.samples.extend(st["samples"])
    d.samples = sorted(d.samples, key=lambda x: -len(x["schedule"]))[:3]  # largest schedules first
    d.states = len(outcomes)
    d.outcomes = len(outcomes)
    d.extra["violations_explained_by_a_smaller_schedule"] = nonmin
    d.wall_s = time.time() - t0


ALL_MODES = (None, "pre", "post", "run")


def main(tier, seed, only=None):
    run = Run(PID, tier, seed, "fault_enumeration",
              rule=("every ordered sequence of <= k faults (class x target x window on the 1..5 s grid x cancel mode) "
                    "is installed through the real FaultSchedule and run on the real Simulation with probe traffic at "
                    "off-grid instants; distinct = distinct (schedule, variant); non-trivial = >= 2 faults whose closed "
                    "windows meet, or a cancelled handle, or a crash/pause of a target with work in flight across the "
                    "window edge; states = distinct end-to-end observations (activity logs / probe fates / samples)"),
              assumptions=["harness entities log inside their own handlers / generators (public contract)",
                           "random.random() is owned (0.000001 or 0.999999 on every call) in the network world; under partial loss only the link state is judged, not which probes are lost",
                           "activity exactly ON a window endpoint is judged neither inside nor outside",
                           "how the magnitudes of overlapping latency / partial-loss faults combine is not judged (capacity: the documented product of the open windows' factors is)"])
    if tier == "quick":
        plan = [("node", 2, {1: ALL_MODES, 2: (None, "post")}),
                ("network", 2, {1: ALL_MODES, 2: (None, "post")}),
                ("resource", 2, {1: ALL_MODES, 2: (None, "post")}),
                ("healall", 2, {1: (None,), 2: (None,)})]
    else:
        plan = [("node", 3, {1: ALL_MODES, 2: ALL_MODES, 3: (None,)}),
                ("network", 3, {1: ALL_MODES, 2: ALL_MODES, 3: (None,)}),
                ("resource", 3, {1: ALL_MODES, 2: ALL_MODES, 3: (None,)}),
                ("healall", 3, {1: (None,), 2: (None, "post"), 3: (None,)})]
    for world, kmax, cm in plan:
        if only and world not in only:
            continue
        run_driver(run, world, kmax, cm, seed)
    if only:
        run.notes.append(f"partial run: only={sorted(only)}")
    return run.finish()


# ---------------------------------------------------------------------------
# replay
# ---------------------------------------------------------------------------
def _thaw(x):
    return tuple(_thaw(i) for i in x) if isinstance(x, list) else x


def replay(data):
    rep = data["replay"]
    world = rep["driver"]
    schedule = _thaw(rep["schedule"])
    variant = rep.get("variant")
    print(f"world: {world}   variant: {variant if world != 'resource' else _WL[variant]}")
    for spec, c in schedule:
        print(f"  fault {CLS[spec[0]]}{spec[1:]}  cancel={c}")
    c, viol, _obs, _trans = execute(world, schedule, variant)
    print(f"run outcome: {c.outcome}")
    if world == "node":
        base = node_base()
        shown = [x for x in ("P", "G", "Q", "B")
                 if any(spec[1] == x for spec, _c in schedule) or c.log[x] != base.log[x] or c.rx[x] != base.rx[x]
                 or c.values[x] != base.values[x]]
        print(f"  (entities identical to the fault-free run are not listed; listed: {shown})")
        rows = []
        for x in shown:
            rows += [(e[1], f"{x} {'handler' if e[0] == 'h' else 'resume '} {e[2]}") for e in c.log[x]]
            rows += [(ct, f"{x} emitted {tag} (received {sec(rt)}s)") for (ct, rt, tag) in c.rx[x]]
            rows += [(t, f"{x} process {tag} received {v!r} from its SimFuture") for (tag, t, v) in c.values[x]]
        for t, txt in sorted(rows, key=lambda r: r[0]):
            print(f"  {sec(t):8.4f}s {txt}")
    elif world in ("network", "healall"):
        if world == "healall":
            print(f"  operator heal-all (Network.heal_partition()) at {sec(tk(variant))} s")
        for key in sorted(c.sent, key=lambda k: (k[2], k[0], k[1])):
            got = c.rx.get(key)
            print(f"  {sec(c.sent[key]):8.4f}s probe {key[0]}->{key[1]} is_partitioned/loss_rate={c.samples[key]} "
                  f"{'delivered after ' + str(sec(got - c.sent[key])) + 's' if got is not None else 'DROPPED'}")
    else:
        for rn in ("R", "R2"):
            rows = [(e[1], 0, f"{rn} {e[0]} hold#{e[2]} {e[3]}") for e in c.log[rn]]
            rows += [(s[0], 1, f"{rn} sample: capacity={s[1]} available={s[2]} waiters={s[3]} held-by-harness={s[4]}")
                     for s in c.samples[rn]]
            for t, _o, txt in sorted(rows, key=lambda r: (r[0], r[1])):
                print(f"  {sec(t):8.4f}s {txt}")
    for key, desc in viol:
        print(f"  !! {fingerprint(schedule, key)}: {desc}")
    want = _thaw(rep.get("key")) if rep.get("key") else None
    if want is not None:
        return 1 if any(key == want for key, _d in viol) else 0
    return 1 if viol else 0

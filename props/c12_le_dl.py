"""C12 — LeaderElection and DistributedLock worlds (real objects, real clock values)."""
from __future__ import annotations

import random as _random

from props.c12_worlds import NetWorld, freeze, node_canon

from happysimulator.components.consensus.distributed_lock import DistributedLock
from happysimulator.components.consensus.election_strategies import (
    BullyStrategy,
    RandomizedStrategy,
    RingStrategy,
)
from happysimulator.components.consensus.leader_election import LeaderElection
from happysimulator.core.clock import Clock
from happysimulator.core.temporal import Instant

NAMES = "abcde"
STRATS = {"bully": BullyStrategy, "ring": RingStrategy, "randomized": RandomizedStrategy}


class LEWorld(NetWorld):
    """n LeaderElection entities; every node's ElectionTimeoutCheck timer fires in time order (ties in any
    order: start offsets differ by an arbitrarily small amount); any in-flight message may be delivered next
    or never (loss / partition).

    params: strategy, n, views ('full' | 'late-<x>': node x is registered at the other nodes later through the
            public add_member(), one 'join' move per node), max_timers, max_moves, rand ('asc' | 'desc' | 'eq':
            the ballots RandomizedStrategy draws through random.randint, by node order)
    A node *reports* leader L for term T when it claims leadership itself (is_leader, current_term), when it
    adopts a leader while handling an ElectionVictory / LeaderHeartbeat, and when its current_leader switches to
    a new name while it handles an event (current_leader, current_term at the end of that handler).
    """

    FROZEN_CLOCK = False

    def __init__(self, strategy="bully", n=3, views="full", max_timers=6, max_moves=14, rand="asc",
                 heartbeat_s=0.5, establish=False):
        super().__init__()
        self.p = dict(strategy=strategy, n=n, views=views, max_timers=max_timers, max_moves=max_moves, rand=rand,
                      heartbeat_s=heartbeat_s, establish=establish)
        nodes = [LeaderElection(NAMES[i], self.net, strategy=STRATS[strategy](), election_timeout=2.0,
                                heartbeat_interval=heartbeat_s) for i in range(n)]
        self.add_nodes(nodes)
        late = views[5:] if views.startswith("late-") else None
        self.late = late
        for nd in nodes:
            for other in nodes:
                if late is not None and other.name == late and nd.name != late:
                    continue
                nd.add_member(other)
        self.joined = set()
        self.term_leaders = {}  # term -> sorted tuple of leaders reported for it
        self.flags = set()
        self.viol = []
        self.moves = 0
        self.rand_calls = 0
        for nd in nodes:
            self.absorb(nd.start())
        if establish:
            # non-initial start: a first election round runs to completion without interference (timers in time
            # order, every message delivered at once, FIFO) until every node names the same leader; the search
            # then explores what happens AFTER an established leadership (second rounds, spurious timeouts)
            mm, mt = self.p["max_moves"], self.p["max_timers"]
            self.p["max_moves"], self.p["max_timers"] = 10 ** 6, 10 ** 6
            for _ in range(80):
                leaders = {nd.current_leader for nd in self.nodes}
                if not self.msgs and len(leaders) == 1 and None not in leaders:
                    break
                labs = self.enabled()
                pick = next((lab for lab in labs if lab[0] == "deliver"), None) or \
                    next((lab for lab in labs if lab[0] == "timer"), None)
                if pick is None:
                    break
                self.apply(pick)
            self.p["max_moves"], self.p["max_timers"] = mm, mt
            self.moves = 0
            self.counts["timer"] = 0
            self.viol = []

    def randint(self, a, b):
        # owned RNG: the k-th draw of the run gets a value fixed by the 'rand' parameter
        k = self.rand_calls
        self.rand_calls += 1
        if self.p["rand"] == "eq":
            return a
        return a + (k if self.p["rand"] == "asc" else 1000 - k)

    def enabled(self):
        labs = []
        seen = set()
        for i, m in enumerate(self.msgs):
            if m[2] in seen:
                continue
            seen.add(m[2])
            labs.append(("deliver", i, self.msg_desc(m)))
        live = self.live_timers()
        if live and self.cnt("timer") < self.p["max_timers"]:
            tmin = min(t[1].time for _, t in live)
            for i, t in live:
                if t[1].time == tmin:
                    labs.append(("timer", i, self.timer_desc(t)))
        if self.late is not None:
            for nd in self.nodes:
                if nd.name != self.late and nd.name not in self.joined:
                    labs.append(("join", nd.name, self.late))
        return labs

    def timer_desc(self, t):
        ep, ev = t
        return f"{ev.event_type}@{ev.target.name} t={ev.time.nanoseconds}ns"

    def apply(self, lab):
        self.moves += 1
        before = {nd.name: nd.current_leader for nd in self.nodes}
        saved = _random.randint
        _random.randint = self.randint
        try:
            super().apply(lab)
        finally:
            _random.randint = saved
        if lab[0] == "deliver" and (lab[2].startswith("ElectionVictory") or lab[2].startswith("LeaderHeartbeat")):
            dst = lab[2].split("->")[1].split(" ")[0]
            nd = self.by_name[dst]
            if nd.current_leader is not None:
                self.report(nd.current_term, nd.current_leader, nd.name, "adopted")
        for nd in self.nodes:
            # a node that switches to a new leader while handling this event reports it for its current term
            if nd.current_leader is not None and nd.current_leader != before[nd.name]:
                self.report(nd.current_term, nd.current_leader, nd.name, "switched to")
        for nd in self.nodes:
            if nd.is_leader:
                self.report(nd.current_term, nd.name, nd.name, "claims leadership")

    def apply_client(self, lab):
        if lab[0] == "join":
            self.by_name[lab[1]].add_member(self.by_name[lab[2]])
            self.joined.add(lab[1])
        else:
            raise NotImplementedError(lab)

    def report(self, term, leader, by, how):
        cur = set(self.term_leaders.get(term, ()))
        if leader in cur:
            return
        cur.add(leader)
        self.term_leaders[term] = tuple(sorted(cur))
        if len(cur) > 1 and ("two", term) not in self.flags:
            self.flags.add(("two", term))
            shape = "full-views" if self.late is None else "partial-views"
            self.viol.append((f"LeaderElection/two-leaders-one-term/{self.p['strategy']}/{shape}",
                              f"term {term}: leaders {sorted(cur)} reported (node {by} {how} {leader}); "
                              f"terms now { {n.name: (n.current_term, n.current_leader) for n in self.nodes} }"))

    def check(self):
        out = list(self.viol)
        self.viol = []
        return out

    def conflict(self):
        return sum(1 for n in self.nodes if n.stats.elections_started > 0) >= 2

    def outcome(self):
        return (tuple((n.current_term, n.current_leader) for n in self.nodes), tuple(sorted(self.term_leaders.items())))

    def within(self):
        return self.moves < self.p["max_moves"]

    def canon_nodes(self):
        return tuple(node_canon(n, drop=("_strategy", "_timeout_event")) + (tuple(sorted(n._members)),)
                     if hasattr(n, "_members") else node_canon(n) for n in self.nodes)

    def canon_timers(self):
        live = [t for t in self.timers if not t[1].cancelled]
        return (self.clock.now.nanoseconds,
                tuple(sorted((t[1].time.nanoseconds, t[1].target.name, t[1].event_type) for t in live)))

    def counts_in_canon(self):
        return {"timer": self.cnt("timer"), "rand": self.rand_calls}

    def canon_ghost(self):
        return (tuple(sorted(self.term_leaders.items())), tuple(sorted(self.joined)),
                tuple(sorted(map(repr, self.flags))))

    def describe(self):
        return (f"t={self.clock.now.nanoseconds}ns " +
                " ".join(f"{n.name}:(term {n.current_term}, leader {n.current_leader})" for n in self.nodes) +
                f" inflight={len(self.msgs)} reported={self.term_leaders}")


# ---------------------------------------------------------------------------
class DLWorld:
    """Operation-sequence BFS over one real DistributedLock.

    ops: acquire / try_acquire by each requester on each lock, release with any fencing token handed out so far
    (current or stale), the pending lease-expiry events in time order.  The expiry event is fetched the way the
    repository's own tests and example do (``lock._pending_expiry`` after an operation that granted).
    Oracle: per lock, the fencing token of every NEW grant (requester was not already the holder) is strictly
    greater than the token of every earlier grant of that lock.
    """

    def __init__(self, requesters=2, locks=1, max_ops=6, lease_s=10.0, max_waiters=0):
        self.p = dict(requesters=requesters, locks=locks, max_ops=max_ops, lease_s=lease_s, max_waiters=max_waiters)
        self.clock = Clock(Instant.Epoch)
        self.lock = DistributedLock("dl", lease_duration=lease_s, max_waiters=max_waiters)
        self.lock.set_clock(self.clock)
        self.timers = []
        self.waiting = []  # (lock name, requester, future)
        self.grants = {}  # lock -> list of (token, holder) in grant order
        self.tokens = {}  # lock -> tokens handed out
        self.ops = 0
        self.viol = []
        self.flags = set()
        self.last_pending = None
        self.conf = False

    def lock_names(self):
        return [f"L{i}" for i in range(self.p["locks"])]

    def enabled(self):
        labs = []
        for ln in self.lock_names():
            for r in range(self.p["requesters"]):
                labs.append(("acquire", ln, f"r{r}"))
                labs.append(("try", ln, f"r{r}"))
            for tok in sorted(self.tokens.get(ln, ())):
                labs.append(("release", ln, tok))
        live = [(i, ev) for i, ev in enumerate(self.timers) if not ev.cancelled]
        if live:
            tmin = min(ev.time for _, ev in live)
            for i, ev in live:
                if ev.time == tmin:
                    md = ev.context["metadata"]
                    labs.append(("expire", i, f"{md.get('lock_name')} token={md.get('fencing_token')} "
                                              f"t={ev.time.nanoseconds}ns"))
        return labs

    def new_grant(self, ln, grant, how):
        tok, holder = grant.fencing_token, grant.holder
        prev = self.grants.setdefault(ln, [])
        self.tokens.setdefault(ln, set()).add(tok)
        if prev and tok <= max(t for t, _ in prev) and ("tok", ln) not in self.flags:
            self.flags.add(("tok", ln))
            self.viol.append((f"DistributedLock/token-not-increasing/{how}",
                              f"lock {ln}: grant to {holder} carries fencing token {tok}, earlier grants {prev}"))
        prev.append((tok, holder))

    def apply(self, lab):
        self.ops += 1
        kind = lab[0]
        lk = self.lock
        if kind in ("acquire", "try"):
            _, ln, r = lab
            held_before = lk.get_holder(ln) == r
            if kind == "acquire":
                fut = lk.acquire(ln, r)
                if fut.is_resolved:
                    g = fut.value
                    if g is not None and not held_before:
                        self.new_grant(ln, g, "acquire-free-lock")
                else:
                    self.waiting.append((ln, r, fut))
                    self.conf = True
            else:
                g = lk.try_acquire(ln, r)
                if g is not None and not held_before:
                    self.new_grant(ln, g, "try-acquire-free-lock")
        elif kind == "release":
            _, ln, tok = lab
            if lk.get_fencing_token(ln) != tok:
                self.conf = True  # stale token presented
            lk.release(ln, tok)
        elif kind == "expire":
            ev = self.timers.pop(lab[1])
            self.conf = True
            if ev.time > self.clock.now:
                self.clock.update(ev.time)
            lk.handle_event(ev)
        else:
            raise NotImplementedError(lab)
        # waiters woken by this operation
        still = []
        for ln, r, fut in self.waiting:
            if fut.is_resolved:
                if fut.value is not None:
                    self.new_grant(ln, fut.value, "handoff-to-waiter")
            else:
                still.append((ln, r, fut))
        self.waiting = still
        pe = getattr(lk, "_pending_expiry", None)
        if pe is not None and pe is not self.last_pending:
            self.last_pending = pe
            self.timers.append(pe)
        self.timers = [e for e in self.timers if not e.cancelled]

    def check(self):
        out = list(self.viol)
        self.viol = []
        return out

    def conflict(self):
        return self.conf

    def outcome(self):
        return tuple(sorted((ln, tuple(g)) for ln, g in self.grants.items()))

    def within(self):
        return self.ops < self.p["max_ops"]

    def canon(self):
        lk = self.lock
        d = {k: v for k, v in vars(lk).items() if not k.startswith("_total") and k not in ("_clock", "name")}
        return (freeze(d), self.clock.now.nanoseconds,
                tuple(sorted((e.time.nanoseconds, repr(sorted(e.context["metadata"].items()))) for e in self.timers)),
                tuple((ln, r) for ln, r, _f in self.waiting), freeze(self.grants), freeze(self.tokens),
                tuple(sorted(map(repr, self.flags))))

    def describe(self):
        lk = self.lock
        return (f"t={self.clock.now.nanoseconds}ns " +
                " ".join(f"{ln}:holder={lk.get_holder(ln)} token={lk.get_fencing_token(ln)}" for ln in self.lock_names())
                + f" waiting={[(ln, r) for ln, r, _ in self.waiting]} grants={self.grants}")

#!/usr/bin/env python3
"""mark_fixed.py <PID> <commit> <fingerprint or glob> [more globs...] — flip open entries in known_findings.d/<PID>.json to fixed."""
import fnmatch, json, sys
pid, commit, pats = sys.argv[1], sys.argv[2], sys.argv[3:]
p = f"/verif/known_findings.d/{pid}.json"
d = json.load(open(p))
n = 0
for f in d["findings"]:
    if f.get("status") == "open" and any(fnmatch.fnmatch(f["fingerprint"], pt) for pt in pats):
        f["status"] = "fixed"; f["commit"] = commit
        f["line"] = f"fixed: property={pid} {commit} {f['description']}"
        n += 1
json.dump(d, open(p, "w"), indent=1)
print(f"{pid}: {n} entries marked fixed by {commit}")

#!/usr/bin/env python3
"""Regenerate /verif/MANIFEST.json from the table below + which props/cNN.py exist."""
import json, os
HERE = os.path.dirname(os.path.dirname(os.path.abspath(__file__)))
def main():
    props = [json.loads(l) for l in open(os.path.join(HERE, "properties.jsonl"))]
    table = json.load(open(os.path.join(HERE, "tools", "manifest_table.json")))
    checks, na = [], []
    for p in props:
        pid = p["id"]
        t = table.get(pid)
        if t and t.get("claimed") and os.path.exists(os.path.join(HERE, "props", pid.lower() + ".py")):
            checks.append({
                "property_id": pid,
                "quick_cmd": f"./check {pid} --tier quick",
                "thorough_cmd": f"./check {pid} --tier thorough",
                "evidence_file": f"/verif/evidence/{pid}.json",
                "replay_cmd_template": f"./check {pid} --replay {{path}}",
                "engine": t["engine"],
                "level_claimed": {"category": t["level"], "text": t["text"], "design_ref": t.get("design_ref", f"DESIGN.md section 6/{pid}")},
                "level_note": t["note"],
                "technique": t["technique"],
            })
        else:
            na.append({"property_id": pid, "reason": (t or {}).get("na_reason", "no check built yet in this phase (design in DESIGN.md section 6); not claimed until its driver exists and is silent on the unchanged tree")})
    m = {
        "version": 1,
        "setup_cmd": "true",
        "hooks": {"guard": "HAPPYSIM_VERIF", "enable": "none needed: no hooks in /repo; checks import happysimulator from /repo's working tree (editable install in /venv)",
                  "baseline_off_cmd": "cd /repo && /venv/bin/python -m pytest -ra -q -p no:cacheprovider --timeout=900 --continue-on-collection-errors",
                  "source_commits": [], "add_only": True},
        "engines": table.get("_engines", []),
        "checks": checks,
        "not_applicable": na,
        "notes": "All checks are bounded exhaustive explorations of the real implementation (python /venv). Known findings: /verif/known_findings.json. See DESIGN.md.",
    }
    json.dump(m, open(os.path.join(HERE, "MANIFEST.json"), "w"), indent=1)
    print("claimed:", [c["property_id"] for c in checks]); print("not claimed:", [n["property_id"] for n in na])
main()

#!/bin/bash
# Run the repository's pinned suite (guard off) in a given tree (default /repo); prints counts from junit xml.
# usage: run_suite.sh [dir] [extra pytest args]
D=${1:-/repo}; shift || true
X=$(mktemp /tmp/suite.XXXXXX.xml)
cd "$D" && env -u HAPPYSIM_VERIF PYTHONPATH="$D" /venv/bin/python -m pytest -ra -q -p no:cacheprovider --timeout=900 --continue-on-collection-errors --junitxml=$X "$@" >/tmp/suite.$$.log 2>&1
python3 - "$X" <<'PY'
import sys,xml.etree.ElementTree as ET
r=ET.parse(sys.argv[1]).getroot()
ts=r if r.tag=='testsuite' else r[0]
a=ts.attrib
t=int(a['tests']);f=int(a['failures']);e=int(a['errors']);s=int(a['skipped'])
print(f"tests={t} passed={t-f-e-s} failures={f} errors={e} skipped={s}")
for tc in ts.iter('testcase'):
    for ch in tc:
        if ch.tag in('failure','error'): print("  FAIL", tc.attrib.get('classname'), tc.attrib.get('name'))
PY
rm -f $X /tmp/suite.$$.log

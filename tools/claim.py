#!/usr/bin/env python3
"""claim.py PID level engine 'technique' 'text' 'note'  — add/replace a manifest_table entry and regenerate MANIFEST.json"""
import json, subprocess, sys
pid, level, engine, tech, text, note = sys.argv[1:7]
p = "/verif/tools/manifest_table.json"
t = json.load(open(p))
t[pid] = {"claimed": True, "level": level, "engine": engine, "technique": tech, "text": text, "note": note}
for e in t["_engines"]:
    if e["name"].split("-")[0] in engine.replace("+", " ").split() or e["name"] in engine:
        if pid not in e["serves_properties"]:
            e["serves_properties"].append(pid); e["serves_properties"].sort()
json.dump(t, open(p, "w"), indent=1)
subprocess.run(["python3", "/verif/tools/gen_manifest.py"])

#!/bin/bash
# usage: eval_seeds.sh <PID> [extra PIDs to also run]  -- copies /tmp/seed-<PID>-out/m* into /verif/seeded/, runs checks against each
PID=$1; shift; EXTRA="$@"
cd /verif
for m in /tmp/seed6-$PID-out/m*; do
  n=$(basename $m); d=seeded/$PID-r6$n; mkdir -p $d; cp $m/patch.diff $m/demo.py $m/meta.json $d/ 2>/dev/null
  for c in $PID $EXTRA; do
    echo "== $PID-$n vs check $c"; VERIF_WORKERS=${VERIF_WORKERS:-12} ./tools/try_patch.sh $d/patch.diff $c 2>&1 | grep -E "fingerprint=|exit=|APPLY|Traceback" | head -8
  done
done

#!/bin/bash
# usage: confirm_seed.sh <seeded dir> ; confirms demo passes on HEAD, fails with patch, suite passes with patch
S=$(realpath "$1")
D=$(mktemp -d /tmp/confirm.XXXXXX); rmdir $D
git -C /repo worktree add --detach "$D" -q || exit 2
cd "$D"
PYTHONPATH="$D" /venv/bin/python "$S/demo.py" >/dev/null 2>&1; O=$?
git apply "$S/patch.diff" || { echo "patch does not apply"; git -C /repo worktree remove --force "$D"; exit 2; }
PYTHONPATH="$D" /venv/bin/python "$S/demo.py" >/dev/null 2>&1; M=$?
SUITE=$(/verif/tools/run_suite.sh "$D" | head -1)
cd /; git -C /repo worktree remove --force "$D"
echo "$(basename $S): demo_on_head=$O demo_with_patch=$M suite: $SUITE" | tee "$S/lead_confirmation.txt"

#!/bin/bash
# usage: eval_one6.sh <PID> <m1|m2>  -- copy /tmp/seed6-<PID>-out/<m> to seeded/<PID>-r6<m>, run the PID quick check against HEAD+patch
PID=$1; n=$2; m=/tmp/seed6-$PID-out/$n; d=/verif/seeded/$PID-r6$n
mkdir -p $d; cp $m/patch.diff $m/demo.py $m/meta.json $d/ 2>/dev/null
cd /verif; echo "== $PID-r6$n"; VERIF_WORKERS=${VERIF_WORKERS:-6} ./tools/try_patch.sh $d/patch.diff $PID 2>&1 | grep -E "fingerprint=|exit=|APPLY|Traceback" | cut -c1-300 | head -6

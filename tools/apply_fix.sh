#!/bin/bash
# usage: apply_fix.sh <patch> <commit message (must start with "fix:")>
P=$(realpath "$1"); MSG="$2"
cd /repo || exit 2
[ -z "$(git status --porcelain)" ] || { echo "repo dirty"; exit 2; }
git apply --3way "$P" 2>/tmp/apply.err || git apply "$P" || { cat /tmp/apply.err; echo "APPLY FAILED: $P"; git checkout -- . ; exit 1; }
git add -A && git commit -q -m "$MSG" && git log --oneline | head -1

#!/usr/bin/env python3
"""mark_fixed_by_patch.py <PID> <commit> <patch-name-substring> — flip open entries whose description names the patch."""
import json, sys
pid, commit, sub = sys.argv[1:4]
p = f"/verif/known_findings.d/{pid}.json"
d = json.load(open(p)); n = 0
for f in d["findings"]:
    if f.get("status") == "open" and sub in f.get("description", ""):
        f["status"] = "fixed"; f["commit"] = commit
        f["line"] = f"fixed: property={pid} {commit} {f['fingerprint']}: {f['description']}"; n += 1
json.dump(d, open(p, "w"), indent=1)
print(f"{pid}: {n} entries marked fixed by {commit} ({sub})")

#!/bin/bash
# usage: try_patch.sh <patch.diff> <PID> [tier]   -- run a check against /repo HEAD + patch in a scratch worktree
# Evidence/replays of such runs go to a scratch dir, never to /verif/evidence.
P=$(realpath "$1"); PID=$2; TIER=${3:-quick}
D=$(mktemp -d /tmp/trypatch.XXXXXX); rmdir $D
git -C /repo worktree add --detach "$D" -q || exit 2
if ! git -C "$D" apply "$P"; then echo "PATCH DOES NOT APPLY"; git -C /repo worktree remove --force "$D"; exit 2; fi
OUT=$(mktemp -d /tmp/tryout.XXXXXX)
cd /verif && VERIF_REPO="$D" VERIF_EVIDENCE_DIR=$OUT/evidence VERIF_REPLAY_DIR=$OUT/replays ./check $PID --tier $TIER > $OUT/log 2>&1
RC=$?
grep -E "^VIOLATION|fingerprint=|KNOWN-FINDING|Traceback|Error" $OUT/log | head -20
echo "exit=$RC  (log: $OUT/log)"
git -C /repo worktree remove --force "$D"
exit $RC

#!/usr/bin/env python3
"""Print a markdown table of all recorded findings (known_findings.json + known_findings.d/*.json)."""
import glob, json
rows = []
for p in ["/verif/known_findings.json"] + sorted(glob.glob("/verif/known_findings.d/*.json")):
    for f in json.load(open(p)).get("findings", []):
        rows.append(f)
rows.sort(key=lambda f: (f["property"], f.get("status") != "fixed", f["fingerprint"]))
print("| Property | Fingerprint | Status | What fails |")
print("|---|---|---|---|")
for f in rows:
    st = f"fixed by {f.get('commit')}" if f.get("status") == "fixed" else "OPEN (known finding)"
    d = f.get("description", "").replace("|", "/").replace("\n", " ")
    print(f"| {f['property']} | `{f['fingerprint']}` | {st} | {d[:300]} |")
print(f"\n{sum(1 for f in rows if f.get('status')=='fixed')} fixed, {sum(1 for f in rows if f.get('status')=='open')} open.")

#!/bin/bash
# usage: run_thorough_all.sh C01 C02 ...   -- runs thorough tiers sequentially, prints one summary line each
for p in "$@"; do
  s=$(date +%s); ./check $p --tier thorough > thorough_$p.log 2>&1; rc=$?; e=$(date +%s)
  echo "$p thorough exit=$rc wall=$((e-s))s $(grep -c '^VIOLATION' thorough_$p.log) violations; $(grep -E '^\['$p'\] tier=' thorough_$p.log)"
done

"""Round-4 blind seeding prompt: property text + prior one-line summaries only (nothing about the checks)."""
import json, sys, glob, re
pid = sys.argv[1]
old = open(f'/tmp/seed3_prompt_{pid}.txt').read()
files = re.search(r"Relevant code: (.*)\.\n", old).group(1)
for l in open('/verif/properties.jsonl'):
    d = json.loads(l)
    if d['id'] == pid:
        break
prior = []
for m in sorted(glob.glob(f'/verif/seeded/{pid}-*m[0-9]/meta.json')):
    try:
        prior.append(json.load(open(m)).get('summary', '')[:220])
    except Exception:
        pass
pl = "\n".join(f"  - {s}" for s in prior)
W = f"/tmp/seed7-{pid}"
print(f"""You are helping test a verification tool by producing realistic bugs. Work ONLY inside the git worktree {W} (a checkout of the Python library `happysimulator`, a discrete-event simulation engine; interpreter /venv/bin/python, run things with `cd {W} && PYTHONPATH={W} /venv/bin/python ...` so that your worktree copy is imported, not the installed one — verify with `python -c "import happysimulator; print(happysimulator.__file__)"`). Do not read or touch /verif or /repo.

The library is supposed to satisfy this property:

"{d['title']}. {d['statement']}" (Quantified over: {d['quantifier']['text']}.)

Relevant code (starting points; follow imports and helpers): {files}.

Task: produce ONE change to the library source (a small patch against the worktree's HEAD) that each BREAK this property while (a) the code still imports/compiles and (b) the repository's existing test suite still passes completely. This round wants the ORDINARY slips a maintainer makes, in places nobody has looked at yet: an off-by-one or `<` vs `<=` at a boundary, a condition wrong for one enum member / one mode / one policy class, a forgotten branch or early return, a default changed, the wrong one of two similar variables, an update done in the wrong order, a counter not maintained on one path, a helper or less-used class/option of the same component family (alternative strategies, optional parameters, secondary API methods, sync vs generator API, less common configuration values). Each must still need some specific input, configuration or timing to show (otherwise the suite would catch it). 

Previous rounds already produced the following changes; do NOT repeat them or close variants, and prefer classes, methods, options and clauses that this list has not touched at all:
{pl}

For the change (i = 1; work fast: you have about 7 minutes of wall-clock in total, so pick a simple edit, run the suite ONCE, and do not over-explore):
1. Start from a clean tree (`cd {W} && git checkout -- .`), make the edit, save it as {W}-out/m<i>/patch.diff (`git diff > ...`).
2. Write a demonstration {W}-out/m<i>/demo.py: a small standalone program using only the library's public API that exits 0 on the original code and exits 1 (printing what went wrong) with the change applied. Run it both ways to confirm.
3. Run the full existing test suite with the change applied and confirm it passes: `cd {W} && PYTHONPATH={W} /venv/bin/python -m pytest -ra -q -p no:cacheprovider --timeout=900 -x > {W}-out/m<i>/suite.log 2>&1; echo exit=$?` (1-3 minutes; must be run sequentially, NOT with -n, because one test depends on global random state; the suite has 3002 tests; the summary line is suppressed by the repo's -q, so rely on the exit code). If any test fails, the change does not qualify — pick another.
4. Write {W}-out/m<i>/meta.json: {{"property":"{pid}","summary":"...","needs_to_manifest":"...","files_changed":[...],"suite_result":"...","demo_original_exit":0,"demo_mutant_exit":1}}.
IMPORTANT: never use `git stash` (the stash is shared with other worktrees of the same repository); toggle your change only with `git apply patch.diff` / `git apply -R patch.diff` / `git checkout -- .`; ALWAYS `cd` with the absolute path {W} and check `pwd` before any git command; never run git commands anywhere else.
Finally restore the worktree to clean state. Keep CPU use modest (the machine is shared). Your final message: the change (what, where, what it needs to manifest) and confirmation of the suite + demo results for each. After your final message do nothing further, even if other agents message you.
Keep every single response short: never write more than ~150 lines of code or text in one message; write files in several smaller steps.""")

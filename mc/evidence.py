"""Run bookkeeping: counters, violations, known findings, evidence + replay files.

A check builds one ``Run``; drivers add coverage through ``Run.driver(name)``
sections; violations are plain data ``(fingerprint, description, replay)`` so
they can cross process boundaries.  ``Run.finish()`` writes
/verif/evidence/<ID>.json, prints VIOLATION / KNOWN-FINDING lines and returns
the process exit status.
"""
from __future__ import annotations

import hashlib
import json
import os
import re
import time
from pathlib import Path

VERIF = Path(__file__).resolve().parent.parent
# Overridable so that runs against scratch copies / mutants never clobber the committed evidence.
EVIDENCE_DIR = Path(os.environ.get("VERIF_EVIDENCE_DIR") or (VERIF / "evidence"))
REPLAY_DIR = Path(os.environ.get("VERIF_REPLAY_DIR") or (VERIF / "replays"))
KNOWN_FINDINGS = VERIF / "known_findings.json"


def slug(s: str) -> str:
    return re.sub(r"[^A-Za-z0-9_.-]+", "_", s)[:120]


def digest(obj) -> str:
    return hashlib.blake2b(repr(obj).encode(), digest_size=12).hexdigest()


def jsonable(o, depth=0):
    """Best-effort conversion of arbitrary driver data to JSON."""
    if depth > 12:
        return repr(o)
    if o is None or isinstance(o, (bool, int, float, str)):
        return o
    if isinstance(o, (list, tuple, set, frozenset)):
        seq = sorted(o, key=repr) if isinstance(o, (set, frozenset)) else o
        return [jsonable(x, depth + 1) for x in seq]
    if isinstance(o, dict):
        return {str(k): jsonable(v, depth + 1) for k, v in o.items()}
    return repr(o)


class Driver:
    """Coverage counters of one driver (one closed sub-system + alphabet + bound)."""

    def __init__(self, name: str, bounds: dict | None = None):
        self.name = name
        self.bounds = bounds or {}
        self.states = 0  # distinct canonical states / distinct end-to-end observations
        self.transitions = 0  # handler calls / deliveries / op applications executed
        self.executions = 0  # complete executions / traces run on the implementation
        self.nontrivial = 0  # distinct executions that involved a real conflict
        self.outcomes = 0  # distinct observed outcomes (vacuity alarm)
        self.exhaustive = True
        self.caps: list[str] = []
        self.samples: list = []
        self.extra: dict = {}
        self.wall_s = 0.0

    def to_dict(self):
        d = {
            "bounds": self.bounds,
            "states": self.states,
            "transitions": self.transitions,
            "executions": self.executions,
            "distinct_nontrivial": self.nontrivial,
            "distinct_outcomes": self.outcomes,
            "exhaustive": self.exhaustive,
            "caps_hit": self.caps,
            "wall_s": round(self.wall_s, 3),
        }
        d.update(self.extra)
        return jsonable(d)


class Run:
    def __init__(self, pid: str, tier: str, seed: int, level: str = "model_checking",
                 rule: str = "", assumptions: list[str] | None = None):
        self.pid = pid
        self.tier = tier
        self.seed = seed
        self.level = level
        self.rule = rule
        self.assumptions = assumptions or []
        self.drivers: dict[str, Driver] = {}
        self.violations: dict[str, tuple[str, dict]] = {}  # fingerprint -> (desc, replay)
        self.violation_counts: dict[str, int] = {}
        self.t0 = time.time()
        self.notes: list[str] = []

    # ------------------------------------------------------------------
    def driver(self, name: str, bounds: dict | None = None) -> Driver:
        d = self.drivers.get(name)
        if d is None:
            d = self.drivers[name] = Driver(name, bounds)
        elif bounds:
            d.bounds.update(bounds)
        return d

    def violation(self, fingerprint: str, description: str, replay: dict | None = None):
        """Record one violation.  The first (= smallest, drivers enumerate
        simplest-first) witness per fingerprint is kept as the replay."""
        self.violation_counts[fingerprint] = self.violation_counts.get(fingerprint, 0) + 1
        if fingerprint not in self.violations:
            self.violations[fingerprint] = (description, replay or {})

    def add_violations(self, items):
        for it in items or []:
            fp, desc, rep = it[0], it[1], (it[2] if len(it) > 2 else None)
            self.violation(fp, desc, rep)

    # ------------------------------------------------------------------
    def _known(self):
        out = []
        files = [KNOWN_FINDINGS] + sorted((VERIF / "known_findings.d").glob("*.json"))
        for fpath in files:
            if not fpath.exists():
                continue
            data = json.loads(fpath.read_text())
            out += [f for f in data.get("findings", []) if f.get("property") == self.pid]
        return out

    def finish(self) -> int:
        EVIDENCE_DIR.mkdir(parents=True, exist_ok=True)
        REPLAY_DIR.mkdir(parents=True, exist_ok=True)
        known = self._known()
        open_fps = {f["fingerprint"]: f for f in known if f.get("status") == "open"}
        unlisted = []
        for fp, (desc, replay) in self.violations.items():
            if fp in open_fps:
                continue
            path = REPLAY_DIR / f"{self.pid}-{slug(fp)}.json"
            path.write_text(json.dumps(jsonable({
                "property": self.pid, "fingerprint": fp, "description": desc,
                "count_in_run": self.violation_counts.get(fp, 1), "replay": replay,
            }), indent=1))
            unlisted.append((fp, desc, path))
        for fp, f in open_fps.items():
            seen = fp in self.violations
            print(f"KNOWN-FINDING: property={self.pid} {fp}: {f.get('description', '')}"
                  f" [{'observed in this run' if seen else 'not reached by this tier'}]")
        for fp, desc, path in unlisted:
            print(f"VIOLATION property={self.pid} replay={path}")
            print(f"  fingerprint={fp}")
            print(f"  {desc}")

        ds = self.drivers.values()
        samples = []
        for d in ds:
            for s in d.samples[:3]:
                samples.append({"driver": d.name, "case": jsonable(s)})
        cov = {
            "states": sum(d.states for d in ds),
            "transitions": sum(d.transitions for d in ds),
            "traces_validated_against_impl": sum(d.executions for d in ds),
            "evaluations": sum(d.executions for d in ds),
            "distinct_nontrivial": sum(d.nontrivial for d in ds),
            "rule": self.rule,
            "samples": samples or [{"note": "no samples recorded"}],
            "exhaustive": all(d.exhaustive for d in ds) if self.drivers else False,
            "drivers": {d.name: d.to_dict() for d in ds},
            "explanation": ("every explored trace is an execution of the real implementation "
                            "(handlers / Simulation loop) under a harness-owned environment; "
                            "traces_validated_against_impl therefore equals executions"),
            "known_findings_observed": sorted(fp for fp in self.violations if fp in open_fps),
            "unlisted_violation_fingerprints": sorted(fp for fp, _, _ in unlisted),
            "notes": self.notes,
        }
        ev = {
            "property_id": self.pid,
            "tier": self.tier,
            "seed": self.seed,
            "level": self.level,
            "coverage": cov,
            "assumptions": self.assumptions,
            "wall_s": round(time.time() - self.t0, 3),
            "violations": len(unlisted),
        }
        (EVIDENCE_DIR / f"{self.pid}.json").write_text(json.dumps(ev, indent=1))
        for d in ds:
            print(f"[{self.pid}] {d.name}: states={d.states} transitions={d.transitions} "
                  f"executions={d.executions} nontrivial={d.nontrivial} outcomes={d.outcomes} "
                  f"exhaustive={d.exhaustive} caps={d.caps} wall={d.wall_s:.1f}s")
        print(f"[{self.pid}] tier={self.tier} seed={self.seed} violations={len(unlisted)} "
              f"known_observed={len(cov['known_findings_observed'])} wall={ev['wall_s']}s")
        return 1 if unlisted else 0


def env_tier_seed():
    tier = os.environ.get("VERIF_TIER", "quick")
    try:
        seed = int(os.environ.get("VERIF_SEED", "0"))
    except ValueError:
        seed = 0
    return tier, seed

"""E1 — explicit-state breadth-first search over real library objects.

A *world* is a picklable object bundling real library objects plus harness
ghost state.  It provides

    enabled()  -> list of labels (hashable, JSON-able) of the moves possible now
    apply(lab) -> performs the move by calling the real handlers
    canon()    -> hashable canonical form of every field a handler reads + ghosts
    check()    -> list of (fingerprint, description) violated in this state
    within()   -> bool: state constraint (successors of a state outside are not explored)

Snapshots are pickle blobs; a successor is loads(parent) + one apply().
Level-synchronous, optionally parallel (fork pool).  Parent pointers give the
label trace of any state; a trace replays on a fresh initial world.
"""
from __future__ import annotations

import hashlib
import pickle
import time


def _h(canon) -> bytes:
    return hashlib.blake2b(repr(canon).encode(), digest_size=12).digest()


def _expand(blob):
    w = pickle.loads(blob)
    out = []
    labels = w.enabled()
    for lab in labels:
        w2 = pickle.loads(blob)
        try:
            w2.apply(lab)
            viol = list(w2.check())
        except Exception as exc:  # a handler crash is a finding of its own kind
            import traceback
            viol = [("crash/" + type(exc).__name__,
                     f"handler raised {type(exc).__name__}: {exc}\n" +
                     "".join(traceback.format_exc().splitlines(True)[-6:]))]
            out.append((lab, None, None, viol, False))
            continue
        key = _h(w2.canon())
        out.append((lab, key, pickle.dumps(w2, protocol=pickle.HIGHEST_PROTOCOL), viol, w2.within()))
    return out


def _expand_chunk(blobs):
    return [_expand(b) for b in blobs]


class BFSResult:
    def __init__(self):
        self.states = 0
        self.transitions = 0
        self.depth = 0
        self.exhaustive = True
        self.caps = []
        self.violations = []  # (fingerprint, description, trace)
        self.level_sizes = []
        self.wall_s = 0.0
        self.sample_traces = []
        self.terminal_states = 0


def bfs(make_world, *, max_states=None, max_depth=None, max_seconds=None, pool=None,
        stop_on_first_per_fp=True, chunk=64, on_state=None):
    """Explore from ``make_world()``.  Returns BFSResult.

    ``pool``: a multiprocessing pool (fork) or None for in-process.
    """
    t0 = time.time()
    res = BFSResult()
    w0 = make_world()
    k0 = _h(w0.canon())
    parents = {k0: (None, None)}
    frontier = [(k0, pickle.dumps(w0, protocol=pickle.HIGHEST_PROTOCOL))]
    res.states = 1
    seen_fp = set()
    for fp, desc in w0.check():
        res.violations.append((fp, desc, []))
        seen_fp.add(fp)

    def trace_of(key, last_label=None):
        labs = []
        while key is not None:
            pk, lab = parents[key]
            if lab is not None:
                labs.append(lab)
            key = pk
        labs.reverse()
        if last_label is not None:
            labs.append(last_label)
        return labs

    depth = 0
    while frontier:
        if max_depth is not None and depth >= max_depth:
            res.exhaustive = False
            res.caps.append(f"max_depth={max_depth}")
            break
        res.level_sizes.append(len(frontier))
        blobs = [b for _, b in frontier]
        if pool is not None and len(blobs) > chunk:
            chunks = [blobs[i:i + chunk] for i in range(0, len(blobs), chunk)]
            results = [r for part in pool.imap(_expand_chunk, chunks) for r in part]
        else:
            results = [_expand(b) for b in blobs]
        nxt = []
        capped = False
        for (pkey, _), succs in zip(frontier, results):
            if not succs:
                res.terminal_states += 1
            for lab, key, blob, viol, within in succs:
                res.transitions += 1
                for fp, desc in viol:
                    if stop_on_first_per_fp and fp in seen_fp:
                        continue
                    seen_fp.add(fp)
                    res.violations.append((fp, desc, trace_of(pkey, lab)))
                if key is None or key in parents:
                    continue
                parents[key] = (pkey, lab)
                res.states += 1
                if on_state is not None:
                    on_state(key, blob)
                if within:
                    nxt.append((key, blob))
                if max_states is not None and res.states >= max_states:
                    capped = True
                    break
            if capped:
                break
        if capped:
            res.exhaustive = False
            res.caps.append(f"max_states={max_states}")
            break
        if max_seconds is not None and time.time() - t0 > max_seconds:
            res.exhaustive = False
            res.caps.append(f"max_seconds={max_seconds}")
            break
        frontier = nxt
        depth += 1
        if len(res.sample_traces) < 3 and frontier:
            res.sample_traces.append(trace_of(frontier[len(frontier) // 2][0]))
    res.depth = depth
    res.wall_s = time.time() - t0
    return res


def replay(make_world, labels, verbose=True):
    """Replay a label trace on a fresh world without the explorer."""
    w = make_world()
    out = []
    for i, lab in enumerate(labels):
        lab = _thaw(lab)
        w.apply(lab)
        v = list(w.check())
        if verbose:
            print(f"  step {i}: {lab}  ->  {w.describe() if hasattr(w, 'describe') else ''}")
            for fp, d in v:
                print(f"    !! {fp}: {d}")
        out.extend(v)
    return w, out


def _thaw(x):
    """JSON round-trip turns tuples into lists; labels are tuples."""
    if isinstance(x, list):
        return tuple(_thaw(i) for i in x)
    return x

"""Shared pieces for driving the real Simulation under a harness-owned environment."""
from __future__ import annotations

import contextlib
import logging
import multiprocessing as mp
import os
import random as _random
import sys
import time

# Import root override (mutation demos run against a scratch copy).
_repo = os.environ.get("VERIF_REPO")
if _repo and _repo not in sys.path:
    sys.path.insert(0, _repo)

from happysimulator.core.entity import Entity  # noqa: E402
from happysimulator.core.event import Event  # noqa: E402
from happysimulator.core.simulation import Simulation  # noqa: E402
from happysimulator.core.temporal import Duration, Instant  # noqa: E402
from happysimulator.distributions.latency_distribution import LatencyDistribution  # noqa: E402


def ns(n: int) -> Instant:
    return Instant(int(n))


def tns(t) -> int:
    return t.nanoseconds


class Rec(Entity):
    """Recorder: logs (now_ns, event_type, tag) on every handled event."""

    def __init__(self, name, log=None):
        super().__init__(name)
        self.log = log if log is not None else []

    def handle_event(self, event):
        self.log.append((self.now.nanoseconds, event.event_type, event.context.get("metadata", {}).get("tag")))
        return None


class Fwd(Entity):
    """Zero-delay forwarder (adds one causal hop): forwards to ``target`` keeping context."""

    def __init__(self, name, target):
        super().__init__(name)
        self.target = target

    def handle_event(self, event):
        return [self.forward(event, self.target)]


class ChoiceLatency(LatencyDistribution):
    """Latency whose every sample is picked by the chooser from a menu (seconds)."""

    def __init__(self, menu, holder, tag="lat"):
        super().__init__(menu[0])
        self.menu = list(menu)
        self.holder = holder  # object with attribute .chooser (so the latency can be deep-copied)
        self.tag = tag

    def get_latency(self, current_time):
        c = self.holder.chooser.choose(len(self.menu), self.tag)
        return Duration.from_seconds(self.menu[c])

    def __deepcopy__(self, memo):
        return ChoiceLatency(self.menu, self.holder, self.tag)


class Holder:
    chooser = None


class TimeTravelWatch(logging.Handler):
    """Captures the engine's own 'Time travel detected' warnings (public behaviour)."""

    def __init__(self):
        super().__init__(level=logging.WARNING)
        self.records = []

    def emit(self, record):
        try:
            msg = record.getMessage()
        except Exception:
            msg = str(record.msg)
        if "Time travel" in msg:
            self.records.append(msg)

    def __enter__(self):
        self._lg = logging.getLogger("happysimulator.core.simulation")
        self._old = self._lg.level
        if self._lg.getEffectiveLevel() > logging.WARNING:
            self._lg.setLevel(logging.WARNING)
        self._lg.addHandler(self)
        return self

    def __exit__(self, *a):
        self._lg.removeHandler(self)
        self._lg.setLevel(self._old)


def run_guarded(sim: Simulation, max_events=20000, storm=None, on_event=None):
    """Run ``sim`` to completion through the public control surface with an
    explicit horizon.  Returns dict(outcome, events, last_ns, storm_at).

    outcome: 'done' | 'horizon' (max_events deliveries) | 'storm' (more than
    ``storm`` deliveries at one simulated instant: frozen clock).
    """
    st = {"n": 0, "same": 0, "last": None, "outcome": "done", "storm_at": None, "types": {}}
    ctl = sim.control

    def hook(ev):
        st["n"] += 1
        t = ev.time.nanoseconds
        if t == st["last"]:
            st["same"] += 1
        else:
            st["last"] = t
            st["same"] = 1
            st["types"] = {}
        if storm is not None:
            st["types"][ev.event_type] = st["types"].get(ev.event_type, 0) + 1
            if st["same"] > storm and st["outcome"] == "done":
                st["outcome"] = "storm"
                st["storm_at"] = t
                st["storm_types"] = dict(st["types"])
                ctl.pause()
        if st["n"] >= max_events and st["outcome"] == "done":
            st["outcome"] = "horizon"
            ctl.pause()
        if on_event is not None:
            on_event(ev)

    ctl.on_event(hook)
    sim.run()
    return {"outcome": st["outcome"], "events": st["n"], "last_ns": st["last"],
            "storm_at": st["storm_at"], "storm_types": st.get("storm_types")}


@contextlib.contextmanager
def owned_random(chooser=None, *, uniform=None, rand=None, seed=12345):
    """Own the module-level ``random`` functions the library calls.

    With a chooser, ``random.random()`` answers from ``rand`` menu (default
    [0.0, 0.999999]), ``random.uniform(a,b)`` from ``uniform`` fractions
    (default [0.0, 0.5, 1.0] of the span), ``shuffle`` picks identity or
    reversed, ``choice`` / ``randint`` / ``sample`` pick by chooser.  Without a
    chooser the module RNG is just re-seeded (deterministic default answers).
    """
    saved = {k: getattr(_random, k) for k in
             ("random", "uniform", "shuffle", "choice", "randint", "sample", "expovariate", "gauss")}
    state = _random.getstate()
    _random.seed(seed)
    if chooser is not None:
        rmenu = rand or [0.0, 0.999999]
        umenu = uniform or [0.0, 0.5, 1.0]

        def r_random():
            return rmenu[chooser.choose(len(rmenu), "random")]

        def r_uniform(a, b):
            return a + (b - a) * umenu[chooser.choose(len(umenu), "uniform")]

        def r_shuffle(x):
            if len(x) > 1 and chooser.choose(2, "shuffle"):
                x.reverse()

        def r_choice(seq):
            seq = list(seq)
            return seq[chooser.choose(len(seq), "choice")]

        def r_randint(a, b):
            return a + chooser.choose(b - a + 1, "randint")

        def r_sample(pop, k):
            pop = list(pop)
            out = []
            for _ in range(k):
                out.append(pop.pop(chooser.choose(len(pop), "sample")))
            return out

        def r_expo(lam):
            return (1.0 / lam) * [1.0, 0.1, 3.0][chooser.choose(3, "expovariate")]

        _random.random = r_random
        _random.uniform = r_uniform
        _random.shuffle = r_shuffle
        _random.choice = r_choice
        _random.randint = r_randint
        _random.sample = r_sample
        _random.expovariate = r_expo
    try:
        yield
    finally:
        for k, v in saved.items():
            setattr(_random, k, v)
        _random.setstate(state)


# ----------------------------------------------------------------------
# parallel map over independent sub-spaces (fork pool, long-lived workers)
# ----------------------------------------------------------------------
_POOL = None


def pool(workers=None):
    global _POOL
    if _POOL is None:
        n = workers or int(os.environ.get("VERIF_WORKERS", "0")) or min(16, os.cpu_count() or 4)
        ctx = mp.get_context("fork")
        _POOL = ctx.Pool(n)
    return _POOL


def close_pool():
    global _POOL
    if _POOL is not None:
        _POOL.close()
        _POOL.join()
        _POOL = None


def pmap(fn, items, chunksize=1, ordered=True):
    """Map over independent work items in the fork pool (VERIF_WORKERS=1 → in-process)."""
    items = list(items)
    if os.environ.get("VERIF_WORKERS") == "1" or len(items) <= 1:
        return [fn(x) for x in items]
    p = pool()
    if ordered:
        return p.map(fn, items, chunksize)
    return list(p.imap_unordered(fn, items, chunksize))


def rotate(items, seed):
    """Rotate the *order* in which independent sub-spaces are explored (never a subset)."""
    items = list(items)
    if not items:
        return items
    k = seed % len(items)
    return items[k:] + items[:k]


class Stopwatch:
    def __init__(self):
        self.t = time.time()

    def lap(self):
        t = time.time()
        d = t - self.t
        self.t = t
        return d

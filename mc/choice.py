"""E2 — stateless choice-sequence exploration (deviation bounded, CHESS style).

``run_fn(chooser)`` executes ONE complete behaviour of the real implementation;
every nondeterministic answer is obtained through ``chooser.choose(n, tag)``.
Choice 0 is the default environment answer; a non-zero choice is a deviation.
``explore`` enumerates every choice sequence with at most ``bound`` deviations
(all of them when ``bound`` is None), each exactly once.
"""
from __future__ import annotations


class NondeterminismError(RuntimeError):
    """Replaying a prefix met a different choice point: an unowned source of
    nondeterminism.  Always a hard error of the harness, never a verdict."""


class Chooser:
    def __init__(self, prefix=(), shapes=None):
        self.prefix = list(prefix)
        self.shapes = shapes  # [(n, tag)] recorded by the parent execution for the prefix
        self.choices: list[int] = []
        self.points: list[tuple[int, object]] = []

    def choose(self, n: int, tag=None) -> int:
        i = len(self.choices)
        if n <= 0:
            raise ValueError("choose(n) needs n >= 1")
        if i < len(self.prefix):
            c = self.prefix[i]
            if self.shapes is not None and i < len(self.shapes):
                pn, ptag = self.shapes[i]
                if pn != n or ptag != tag:
                    raise NondeterminismError(
                        f"choice point {i}: replay saw (n={n}, tag={tag!r}), "
                        f"recorded (n={pn}, tag={ptag!r})")
            if c >= n:
                raise NondeterminismError(f"choice point {i}: prefix choice {c} out of range {n}")
        else:
            c = 0
        self.choices.append(c)
        self.points.append((n, tag))
        return c

    def pick(self, options, tag=None):
        return options[self.choose(len(options), tag)]


class FixedChooser(Chooser):
    """Replays an exact choice list (for replay files); beyond it answers 0."""


def explore(run_fn, bound=None, max_execs=None, cost=None):
    """Yield ``(choices, points, outcome)`` for every execution within the bound.

    ``cost(choice_index, point, alt)`` may give the deviation cost of taking
    alternative ``alt`` (default 1 for any alt != 0).  Returns via
    ``explore.last_stats`` style dict in the final yield?  No: callers count.
    """
    stack = [([], None, 0)]
    n = 0
    while stack:
        prefix, shapes, devs = stack.pop()
        ch = Chooser(prefix, shapes)
        outcome = run_fn(ch)
        n += 1
        yield ch.choices, ch.points, outcome
        if max_execs is not None and n >= max_execs:
            return
        # children: deviate at each point at/after len(prefix)
        new = []
        for i in range(len(prefix), len(ch.choices)):
            pn, _tag = ch.points[i]
            if pn <= 1:
                continue
            for alt in range(1, pn):
                c = 1 if cost is None else cost(i, ch.points[i], alt)
                if bound is not None and devs + c > bound:
                    continue
                new.append((ch.choices[:i] + [alt], ch.points[: i + 1], devs + c))
        # DFS; reversed so that simplest (earliest point, smallest alt) is explored first
        stack.extend(reversed(new))


def count_capped(gen, cap):
    """Helper: iterate a generator up to cap items, return (items_iterated, hit_cap)."""
    k = 0
    for _ in gen:
        k += 1
        if k >= cap:
            return k, True
    return k, False
